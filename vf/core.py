"""Shared driver: Hypothesis plumbing, sharding, bucketing, shrinking, evidence.

A property module (vf/props/cXX.py) exposes a module-level object ``PROP`` that is an
instance of ``Prop``.  The driver is the only place that talks to Hypothesis, so every
check is a pure function of (tree, VERIF_SEED, tier).
"""
from __future__ import annotations

import hashlib
import importlib
import json
import os
import sys
import time
import traceback
from dataclasses import dataclass, field

ROOT = os.path.dirname(os.path.dirname(os.path.abspath(__file__)))
OUT = os.environ.get('VERIF_OUT', ROOT)       # evidence/ and replay/ go here (seedtest redirects them)
NSHARDS = int(os.environ.get('VERIF_SHARDS', '16'))


# --------------------------------------------------------------------------- outcome
@dataclass
class Outcome:
    status: str = 'ok'            # ok | fail | inconclusive | skip
    nontrivial: bool = False
    labels: list = field(default_factory=list)
    bucket: str = ''              # root-cause key for failures
    msg: str = ''

    @staticmethod
    def ok(nontrivial=False, labels=()):
        return Outcome('ok', nontrivial, list(labels))

    @staticmethod
    def fail(bucket, msg, labels=()):
        return Outcome('fail', True, list(labels), bucket, msg)

    @staticmethod
    def inconclusive(why, labels=()):
        return Outcome('inconclusive', False, list(labels) + ['inconclusive:' + why], '', why)

    @staticmethod
    def skip(why, labels=()):
        return Outcome('skip', False, list(labels) + ['skip:' + why], '', why)


class Prop:
    """Base class of a property check."""
    id = 'C00'
    level = 'exploration'
    rule = ''
    assumptions: list = []
    crash_is_violation = False      # an exception from inside rsome on a generated case
    max_error_fraction = 0.5        # more rsome errors than this -> the run decides nothing

    def examples(self, tier):       # total over all shards
        return 1000 if tier == 'quick' else 20000

    def time_budget(self, tier):    # seconds per shard; hitting it = inconclusive
        return 150 if tier == 'quick' else 1500

    def strategy(self, tier):
        raise NotImplementedError

    def check(self, case) -> Outcome:
        raise NotImplementedError

    def enumerations(self, tier, seed):
        """Optional exhaustive parts: iterable of (case, Outcome-producing callable name)."""
        return []

    def fixed_cases(self):
        """Cases always run: shrunk reproducers of findings that were fixed (regress/<id>-*.json)."""
        import glob
        out = []
        for fn in sorted(glob.glob(os.path.join(ROOT, 'regress', self.id + '-*.json'))):
            with open(fn) as f:
                obj = json.load(f)
            out.append(obj['case'] if isinstance(obj, dict) and 'case' in obj else obj)
        return out

    def known_match(self, finding, case, outcome) -> bool:
        """Does this failure belong to a *recorded* finding?"""
        return False

    def sample_repr(self, case):
        return case


def case_hash(case):
    return hashlib.sha1(json.dumps(case, sort_keys=True, default=str).encode()).hexdigest()[:16]


def load_prop(pid) -> Prop:
    # everything the checks may import lazily is imported up-front: Hypothesis' generation
    # depends on which modules are loaded (observed: importing rsome/pandas mid-run changes the
    # generated sequence), and the shrink pass relies on regenerating the same sequence.
    import numpy, scipy.sparse, scipy.optimize, pandas  # noqa
    import rsome  # noqa
    from rsome import ro, dro, lp, socp, gcp  # noqa
    for solver in ('grb_solver', 'eco_solver', 'ort_solver', 'lpg_solver'):
        try:
            importlib.import_module('rsome.' + solver)
        except Exception:  # a missing solver is reported by the checks that need it
            pass
    mod = importlib.import_module('vf.props.' + pid.lower())
    return mod.PROP


def rsome_frame(tb):
    """innermost frame inside rsome/ of a traceback, as 'file:func'."""
    last = None
    for fr, ln in traceback.walk_tb(tb):
        fn = fr.f_code.co_filename
        if os.sep + 'rsome' + os.sep in fn and os.sep + 'vf' + os.sep not in fn:
            last = '%s:%s' % (os.path.basename(fn), fr.f_code.co_name)
    return last


def safe_check(prop: Prop, case) -> Outcome:
    """Run prop.check; classify escaping exceptions."""
    try:
        out = prop.check(case)
        if not isinstance(out, Outcome):
            raise TypeError('check() must return Outcome')
        return out
    except Exception as e:  # noqa
        fr = rsome_frame(e.__traceback__)
        txt = '%s: %s' % (type(e).__name__, str(e)[:300])
        if fr is not None:
            if prop.crash_is_violation:
                return Outcome.fail('crash:%s:%s' % (type(e).__name__, fr), txt)
            o = Outcome('rsome_error', False, ['rsome_error:%s:%s' % (type(e).__name__, fr)], '', txt)
            return o
        o = Outcome('harness_error', False, ['harness_error'], '',
                    txt + '\n' + ''.join(traceback.format_exception(type(e), e, e.__traceback__))[-3000:])
        return o


# --------------------------------------------------------------------------- shard
def _hyp_settings(n, shrink):
    from hypothesis import settings, HealthCheck, Phase
    phases = [Phase.generate, Phase.shrink] if shrink else [Phase.generate]
    return settings(max_examples=max(1, n), database=None, deadline=None, derandomize=False,
                    phases=phases, suppress_health_check=list(HealthCheck),
                    report_multiple_bugs=False, print_blob=False)


def shard_seed(seed, shard):
    return (int(seed) * 1000003 + shard * 7919 + 17) % (2 ** 62)


def run_shard(args):
    pid, tier, seed, shard, nshards = args
    os.environ.setdefault('PYTHONHASHSEED', '0')
    import warnings
    warnings.simplefilter('ignore')
    try:        # kill -USR1 <worker pid> dumps its Python stack to /tmp/vf_stack_<pid>.log (debugging aid for slow cases)
        import faulthandler
        import signal
        faulthandler.register(signal.SIGUSR1, file=open('/tmp/vf_stack_%d.log' % os.getpid(), 'w'), all_threads=True)
    except Exception:
        pass
    t0 = time.time()
    res = {'shard': shard, 'evaluations': 0, 'status': {}, 'labels': {}, 'nt_hashes': [],
           'samples': [], 'failures': [], 'harness_errors': [], 'budget_hit': False,
           'distinct': 0, 'slowest': [0.0, None]}
    try:
        from hypothesis import given, seed as hseed
        prop = load_prop(pid)
        n = max(1, prop.examples(tier) // nshards)
        budget = prop.time_budget(tier)
        seen = set()
        nt = set()
        counter = {'i': 0}
        cur_dir = os.path.join(OUT, 'replay', '.current_%s' % pid)
        if prop.crash_is_violation:
            os.makedirs(cur_dir, exist_ok=True)

        def record(case, out, index):
            res['evaluations'] += 1
            res['status'][out.status] = res['status'].get(out.status, 0) + 1
            for lb in out.labels:
                res['labels'][lb] = res['labels'].get(lb, 0) + 1
            h = case_hash(case)
            seen.add(h)
            if out.nontrivial and out.status in ('ok', 'fail') and h not in nt:
                nt.add(h)
                if len(res['samples']) < 3:
                    res['samples'].append(prop.sample_repr(case))
            if out.status == 'fail':
                if not any(f['bucket'] == out.bucket for f in res['failures']):
                    res['failures'].append({'bucket': out.bucket, 'msg': out.msg, 'case': case,
                                            'index': index, 'shard': shard, 'count': 1})
                else:
                    for f in res['failures']:
                        if f['bucket'] == out.bucket:
                            f['count'] += 1
            if out.status == 'harness_error' and len(res['harness_errors']) < 3:
                res['harness_errors'].append({'msg': out.msg, 'case': case})

        # fixed cases are run by shard 0 only
        if shard == 0:
            for case in prop.fixed_cases():
                record(case, safe_check(prop, case), -1)

        @hseed(shard_seed(seed, shard))
        @_hyp_settings(n, False)
        @given(prop.strategy(tier))
        def body(case):
            i = counter['i']
            counter['i'] += 1
            if time.time() - t0 > budget:
                res['budget_hit'] = True
                return
            if prop.crash_is_violation:      # if the process dies inside a solver, the parent finds the case it was busy with here
                with open(os.path.join(cur_dir, 'shard%d.json' % shard), 'w') as fh:
                    json.dump({'case': case, 'index': i, 'shard': shard}, fh, default=str)
            if os.environ.get('VERIF_TRACE_CASES'):      # debugging aid: which case is a worker busy with?
                with open('/tmp/vf_cur_%d.json' % os.getpid(), 'w') as fh:
                    json.dump({'case': case, 'index': i, 'shard': shard}, fh, default=str)
            tc = time.time()
            out = safe_check(prop, case)
            dt = time.time() - tc
            if dt > res['slowest'][0]:
                res['slowest'] = [round(dt, 3), case]
            record(case, out, i)

        body()
        res['nt_hashes'] = sorted(nt)
        res['distinct'] = len(seen)
    except Exception as e:  # noqa
        res['harness_errors'].append({'msg': 'shard crashed: ' + ''.join(
            traceback.format_exception(type(e), e, e.__traceback__))[-3000:], 'case': None})
    res['wall'] = time.time() - t0
    return res


def shrink_failure(args):
    """Re-run the shard that produced a failure and let Hypothesis shrink that bucket only."""
    pid, tier, seed, nshards, failure, budget_calls = args
    os.environ.setdefault('PYTHONHASHSEED', '0')
    import warnings
    warnings.simplefilter('ignore')
    from hypothesis import given, seed as hseed
    prop = load_prop(pid)
    if failure['index'] < 0:
        return failure['case'], 'fixed case (not shrunk)'
    n = max(1, prop.examples(tier) // nshards)
    target = failure['bucket']
    state = {'i': 0, 'started': False, 'calls': 0, 'best': None, 'failing': set()}

    class Hit(Exception):
        pass

    @hseed(shard_seed(seed, failure['shard']))
    @_hyp_settings(n, True)
    @given(prop.strategy(tier))
    def body(case):
        i = state['i']
        state['i'] += 1
        if not state['started']:
            if i < failure['index']:
                return
            state['started'] = True
        h = case_hash(case)
        bad = h in state['failing']
        if not bad:
            state['calls'] += 1
            if state['calls'] > budget_calls:
                return
            out = safe_check(prop, case)
            bad = out.status == 'fail' and out.bucket == target
        if bad:                      # single raise site: Hypothesis keys failures by location
            state['failing'].add(h)
            state['best'] = case
            raise Hit()

    try:
        body()
    except Hit:
        pass
    except Exception as e:  # Flaky etc.
        if state['best'] is None:
            return failure['case'], 'shrink failed: %s' % type(e).__name__
    if state['best'] is None:
        return failure['case'], 'not reproduced in shrink pass (kept unshrunk)'
    return state['best'], 'shrunk with %d oracle calls' % state['calls']


# --------------------------------------------------------------------------- known findings
def load_known():
    p = os.path.join(ROOT, 'known_findings.json')
    if not os.path.exists(p):
        return []
    with open(p) as f:
        return json.load(f).get('findings', [])


# --------------------------------------------------------------------------- main entry
def write_json(path, obj):
    os.makedirs(os.path.dirname(path), exist_ok=True)
    tmp = path + '.tmp%d' % os.getpid()
    with open(tmp, 'w') as f:
        json.dump(obj, f, indent=1, sort_keys=True, default=str)
    os.replace(tmp, path)


def run_property(pid, tier, seed):
    import concurrent.futures as cf
    import multiprocessing as mp
    t0 = time.time()
    prop = load_prop(pid)
    nshards = NSHARDS
    ctx = mp.get_context('spawn')
    jobs = [(pid, tier, seed, s, nshards) for s in range(nshards)]
    died = []
    try:
        with cf.ProcessPoolExecutor(max_workers=nshards, mp_context=ctx) as ex:
            results = list(ex.map(run_shard, jobs))
    except cf.process.BrokenProcessPool:
        # a worker process was killed (segmentation fault inside a solver library): run the shards one per pool so that the
        # others finish, and report the case the dead worker was busy with
        results = []
        for job in jobs:
            try:
                with cf.ProcessPoolExecutor(max_workers=1, mp_context=ctx) as ex1:
                    results.append(ex1.submit(run_shard, job).result())
            except cf.process.BrokenProcessPool:
                fn = os.path.join(OUT, 'replay', '.current_%s' % pid, 'shard%d.json' % job[3])
                if prop.crash_is_violation and os.path.exists(fn):
                    with open(fn) as fh:
                        died.append(json.load(fh))
                else:
                    raise

    # exhaustive / enumerated parts run in the parent (they parallelise themselves)
    enum_info = None
    if hasattr(prop, 'run_enumerations'):
        enum_info = prop.run_enumerations(tier, seed)

    ev = 0
    status, labels = {}, {}
    nt = set()
    samples, failures, herrs = [], {}, []
    budget_hit = False
    distinct = 0
    slowest = [0.0, None]
    for r in results:
        ev += r['evaluations']
        distinct += r['distinct']
        for k, v in r['status'].items():
            status[k] = status.get(k, 0) + v
        for k, v in r['labels'].items():
            labels[k] = labels.get(k, 0) + v
        nt.update(r['nt_hashes'])
        for s in r['samples']:
            if len(samples) < 5:
                samples.append(s)
        for f in r['failures']:
            if f['bucket'] not in failures:
                failures[f['bucket']] = f
            else:
                failures[f['bucket']]['count'] += f['count']
        herrs.extend(r['harness_errors'])
        budget_hit = budget_hit or r['budget_hit']
        if r['slowest'][0] > slowest[0]:
            slowest = r['slowest']
    for d in died:
        b = 'crash:process_died'
        failures.setdefault(b, {'bucket': b, 'msg': 'the worker process died (killed by a signal, e.g. a segmentation fault inside a solver '
                                'library) while this generated case was being built / solved', 'case': d['case'], 'index': -1,
                                'shard': d['shard'], 'count': 0})
        failures[b]['count'] += 1
        status['fail'] = status.get('fail', 0) + 1
        ev += 1
    if enum_info:
        ev += enum_info.get('evaluations', 0)
        nt.update(enum_info.get('nt_hashes', []))
        for k, v in enum_info.get('labels', {}).items():
            labels[k] = labels.get(k, 0) + v
        for f in enum_info.get('failures', []):
            failures.setdefault(f['bucket'], f)
        for s in enum_info.get('samples', []):
            if len(samples) < 8:
                samples.append(s)
        herrs.extend(enum_info.get('harness_errors', []))

    # shrink one representative per bucket (parallel)
    known = [k for k in load_known() if k.get('property') == pid]
    recorded = [k for k in known if k.get('status') == 'recorded']
    out_lines = []
    nviol = 0
    shrunk = {}
    if failures:
        calls = 120 if tier == 'quick' else 600
        sj = [(pid, tier, seed, nshards, f, calls) for f in failures.values()]
        # one pool per bucket: a shrink pass that walks into a case which kills its process must not take the others down
        for f, job in zip(list(failures.values()), sj):
            if f['bucket'] == 'crash:process_died':
                continue
            try:
                with cf.ProcessPoolExecutor(max_workers=1, mp_context=ctx) as ex:
                    shrunk[f['bucket']] = ex.submit(shrink_failure, job).result()
            except cf.process.BrokenProcessPool:
                shrunk[f['bucket']] = (f['case'], 'unshrunk (the shrink pass met a case that kills the process)')
    matched_known = set()
    for b, f in sorted(failures.items()):
        case, note = shrunk.get(b, (f['case'], 'unshrunk'))
        if b == 'crash:process_died':         # re-running it here would kill this process too
            out = Outcome.fail(b, f['msg'])
        else:
            out = safe_check(prop, case)
        if out.status != 'fail':      # shrunk case must still fail in this process
            case, note, out = f['case'], note + '; shrunk case did not fail on re-check, kept original', \
                safe_check(prop, f['case'])
        msg = out.msg if out.status == 'fail' else f['msg']
        kf = None
        for k in recorded:
            if prop.known_match(k, case, out if out.status == 'fail' else Outcome.fail(b, f['msg'])):
                kf = k
                break
        safe_b = ''.join(c if c.isalnum() or c in '-_.' else '_' for c in b)[:80]
        path = os.path.join(OUT, 'replay', '%s-%s.json' % (pid, safe_b))
        write_json(path, {'property': pid, 'bucket': b, 'msg': msg, 'case': case, 'note': note,
                          'seed': seed, 'tier': tier, 'count': f['count']})
        if kf is not None:
            matched_known.add(kf['id'])
        else:
            nviol += 1
            out_lines.append('VIOLATION property=%s replay=%s' % (pid, path))
            out_lines.append('  bucket=%s count=%d :: %s' % (b, f['count'], msg.splitlines()[0][:300] if msg else ''))

    # recorded findings: run their fixed reproducers every time
    for k in recorded:
        still = prop.known_repro(k) if hasattr(prop, 'known_repro') else None
        if still is True or (still is None and k['id'] in matched_known):
            out_lines.append('KNOWN-FINDING: property=%s %s: %s' % (pid, k['id'], k['what']))
        elif still is False:
            out_lines.append('NOTE: recorded finding %s no longer reproduces' % k['id'])

    nerr = status.get('rsome_error', 0)
    harness_fail = bool(herrs) or status.get('harness_error', 0) > 0
    decided = status.get('ok', 0) + status.get('fail', 0)
    vacuous = decided == 0 or (ev > 0 and nerr / max(ev, 1) > prop.max_error_fraction)

    wall = time.time() - t0
    evidence = {
        'property_id': pid, 'tier': tier, 'seed': int(seed), 'level': prop.level,
        'coverage': {
            'evaluations': ev,
            'distinct_nontrivial': len(nt),
            'distinct_cases': distinct,
            'rule': prop.rule,
            'samples': samples if samples else [r for r in (prop.fixed_cases() or [])][:1],
            'status_histogram': status,
            'class_histogram': dict(sorted(labels.items())),
            'time_budget_hit': budget_hit,
            'slowest_case_s': slowest[0],
            'failure_buckets': {b: f['count'] for b, f in failures.items()},
            'known_findings_seen': sorted(matched_known),
        },
        'assumptions': list(prop.assumptions),
        'wall_s': round(wall, 2),
        'violations': nviol,
    }
    if enum_info and 'coverage' in enum_info:
        evidence['coverage'].update(enum_info['coverage'])
    write_json(os.path.join(OUT, 'evidence', pid + '.json'), evidence)

    for ln in out_lines:
        print(ln)
    if slowest[0] > 20:
        print('NOTE: slowest case took %.1fs: %s' % (slowest[0], json.dumps(slowest[1], default=str)[:600]))
    print('%s %s seed=%s: evaluations=%d distinct_nontrivial=%d status=%s wall=%.1fs' % (
        pid, tier, seed, ev, len(nt), json.dumps(status, sort_keys=True), wall))
    if nviol:
        return 1
    if harness_fail:
        for h in herrs[:3]:
            print('HARNESS-ERROR:', h['msg'][-1500:], file=sys.stderr)
            if h.get('case') is not None:
                print('  case:', json.dumps(h['case'], default=str)[:1500], file=sys.stderr)
        return 2
    if vacuous:
        print('HARNESS-ERROR: run decided nothing (decided=%d, rsome_errors=%d of %d)' % (decided, nerr, ev),
              file=sys.stderr)
        return 2
    return 0


def replay(pid, path):
    prop = load_prop(pid)
    with open(path) as f:
        obj = json.load(f)
    case = obj['case'] if isinstance(obj, dict) and 'case' in obj else obj
    out = safe_check(prop, case)
    print('replay %s: status=%s bucket=%s' % (path, out.status, out.bucket))
    if out.msg:
        print(out.msg)
    if out.status == 'fail':
        print('VIOLATION property=%s replay=%s' % (pid, path))
        return 1
    if out.status == 'harness_error':
        return 2
    return 0
