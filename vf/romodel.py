"""RO model IR: generation around a witness (feasible and bounded by construction), RSOME builder
with spelling knobs, NumPy reference semantics, and an independent reference solver
(Kelley cutting planes on the semi-infinite LP; master LP by scipy linprog).
"""
import numpy as np
from hypothesis import strategies as st
from scipy.optimize import linprog

from vf import rosets
from vf.quiet import quiet

COEF = [-2.0, -1.0, -1.0, 0.0, 0.0, 0.0, 1.0, 1.0, 2.0, 0.5]
NZCOEF = [-2.0, -1.0, 1.0, 2.0, 0.5, -0.5]


def _vec(draw, n, pool=COEF):
    return [draw(st.sampled_from(pool)) for _ in range(n)]


def _mat(draw, r, c, density=0.4):
    out = []
    for _ in range(r):
        out.append([draw(st.sampled_from(NZCOEF)) if draw(st.integers(0, 9)) < 10 * density else 0.0
                    for _ in range(c)])
    return out


# ----------------------------------------------------------------------------- generation
@st.composite
def ro_case(draw, families=None, exact_only=False, max_cons=4, allow_eq=True, allow_lift=True):
    nx = draw(st.integers(1, 4))
    ny = draw(st.integers(0, 3))
    nz = draw(st.integers(1, 4))
    lift = allow_lift and draw(st.integers(0, 5)) == 0
    nsets = draw(st.integers(1, 3))
    sets = []
    for k in range(nsets):
        centre = [draw(st.sampled_from([-1.0, 0.0, 0.0, 0.5, 1.0, 2.0])) for _ in range(nz)]
        if lift:
            fams = ['budget']
            s = draw(rosets.set_ir(nz, centre, families=['budget'], max_pieces=1))
            extra = draw(st.integers(0, 1))
            if extra:
                s2 = draw(rosets.set_ir(nz, [0.0] * nz, families=['box', 'l1', 'poly', 'l2'] if not exact_only else
                                        ['box', 'l1', 'poly', 'l2'], allow_lift=False, max_pieces=1))
                s['pieces'] += [p for p in s2['pieces']]
        else:
            fams = families
            if fams is None:
                fams = ['box', 'box', 'l1', 'l2', 'linf', 'poly', 'eq', 'pn', 'kl']
            s = draw(rosets.set_ir(nz, centre, families=fams, allow_lift=False,
                                   max_pieces=1 if exact_only and draw(st.booleans()) else 3))
            if exact_only:
                kinds = set(p['t'] for p in s['pieces'])
                if ('pn' in kinds or 'kl' in kinds) and len(s['pieces']) > 1:
                    s['pieces'] = [p for p in s['pieces'] if p['t'] in ('pn', 'kl')][:1]
        if not lift and nz >= 2 and draw(st.integers(0, 9)) == 0:
            # a product of plain Euclidean balls over consecutive blocks of z, written norm(z[a:b]) <= 1 (several cones with
            # unit coefficients in one set)
            cut = draw(st.integers(1, nz - 1))
            cen = [0.0] * nz if draw(st.integers(0, 2)) > 0 else centre
            s = {'nz': nz, 'nu': 0, 'centre': list(cen), 'pieces': [
                {'t': 'l2', 'c': list(cen), 'r': draw(st.sampled_from([1.0, 1.0, 1.0, 2.0])), 'style': 'plainsel', 'sel': sel,
                 'B': np.eye(nz)[sel].tolist()} for sel in (list(range(cut)), list(range(cut, nz)))]}
        sets.append(s)
    nu = nz if lift else 0
    nw = nz + nu
    # LDR dependency mask
    ymask = []
    ymode = draw(st.sampled_from(['none', 'full', 'partial', 'partial'])) if ny else 'none'
    for k in range(ny):
        if ymode == 'none':
            ymask.append([0] * nw)
        elif ymode == 'full':
            ymask.append([1] * nw)
        else:
            ymask.append([draw(st.integers(0, 1)) for _ in range(nw)])
    # witness
    xbar = [float(draw(st.integers(-2, 3))) for _ in range(nx)]
    ybar = [float(draw(st.integers(-2, 3))) for _ in range(ny)]
    Ybar = [[0.0] * nw for _ in range(ny)]
    xlo = [v - draw(st.sampled_from([0.0, 1.0, 2.0, 3.0])) for v in xbar]
    xhi = [v + draw(st.sampled_from([0.0, 1.0, 2.0, 3.0])) for v in xbar]
    cons = []
    # equality rows pin some LDR entries: y_k(w) == -(c.w + c0)
    pinned = set()
    if allow_eq and ny:
        for k in range(ny):
            if draw(st.integers(0, 4)) == 0:
                c = [draw(st.sampled_from(NZCOEF)) if ymask[k][j] and draw(st.booleans()) else 0.0 for j in range(nw)]
                c0 = float(draw(st.integers(-2, 2)))
                b = [0.0] * ny
                b[k] = 1.0
                sc = draw(st.sampled_from([1.0, -1.0, 2.0]))
                row = {'a0': [0.0] * nx, 'A': [[0.0] * nw for _ in range(nx)], 'b': [sc * v for v in b],
                       'c': [sc * v for v in c], 'c0': sc * c0}
                cons.append({'set': draw(st.integers(0, nsets - 1)) if draw(st.booleans()) else None,
                             'sense': 'eq', 'rows': [row], 'style': draw(st.integers(0, 4)), 'given': True})
                ybar[k] = -c0
                Ybar[k] = [-v for v in c]
                pinned.add(k)
    # bounds on every LDR entry over the default set (keeps the problem bounded)
    for k in range(ny):
        if k in pinned:
            continue
        for sgn in (1.0, -1.0):
            b = [0.0] * ny
            b[k] = sgn
            row = {'a0': [0.0] * nx, 'A': [[0.0] * nw for _ in range(nx)], 'b': b, 'c': [0.0] * nw, 'c0': None,
                   'slack': draw(st.sampled_from([1.0, 2.0, 3.0]))}
            cons.append({'set': None, 'sense': 'le', 'rows': [row], 'style': draw(st.integers(0, 4))})
    ncons = draw(st.integers(1, max_cons))
    for _ in range(ncons):
        nrows = draw(st.integers(1, 3))
        bilinear = draw(st.integers(0, 2)) > 0
        rows = []
        for _r in range(nrows):
            row = {'a0': _vec(draw, nx), 'A': _mat(draw, nx, nw, 0.35) if bilinear else [[0.0] * nw for _ in range(nx)],
                   'b': _vec(draw, ny), 'c': _vec(draw, nw), 'c0': None,
                   'slack': draw(st.sampled_from([0.0, 0.0, 0.5, 1.0, 2.0]))}
            if not any(row['c']) and draw(st.booleans()):
                row['explicit_zero'] = True
            if not (any(row['a0']) or any(any(r) for r in row['A']) or any(row['b'])):
                row['a0'][draw(st.integers(0, nx - 1))] = 1.0      # every row involves a decision
            rows.append(row)
        cons.append({'set': draw(st.integers(0, nsets - 1)) if draw(st.integers(0, 2)) else None,
                     'sense': draw(st.sampled_from(['le', 'le', 'ge'])), 'rows': rows,
                     'style': draw(st.integers(0, 4)), 'scale': draw(st.sampled_from([1.0, 1.0, 2.0, 0.5])),
                     'vec': nrows > 1 and draw(st.booleans())})      # one array-valued robust constraint
    okind = draw(st.sampled_from(['minmax', 'minmax', 'maxmin', 'min', 'max']))
    obj = {'kind': okind, 'd0': _vec(draw, nx), 'f0': float(draw(st.integers(-1, 1)))}
    if not any(obj['d0']):
        obj['d0'][draw(st.integers(0, nx - 1))] = draw(st.sampled_from(NZCOEF))   # the objective involves a decision
    if okind in ('minmax', 'maxmin'):
        obj['D'] = _mat(draw, nx, nw, 0.3) if draw(st.booleans()) else [[0.0] * nw for _ in range(nx)]
        obj['e'] = _vec(draw, ny)
        obj['f'] = _vec(draw, nw)
        obj['style'] = draw(st.integers(0, 4))
        if draw(st.integers(0, 3)) == 0:
            # piecewise objective: minmax(maxof(p0, p1, ...)) / maxmin(minof(...)) with bi-affine pieces
            obj['extra'] = []
            for _ in range(draw(st.integers(1, 2))):
                pc = {'d0': _vec(draw, nx), 'D': _mat(draw, nx, nw, 0.3) if draw(st.booleans()) else [[0.0] * nw for _ in range(nx)],
                      'e': _vec(draw, ny), 'f': _vec(draw, nw), 'f0': float(draw(st.integers(-1, 1)))}
                if not any(pc['d0']) and not any(pc['e']) and not any(any(r) for r in pc['D']):
                    pc['d0'][0] = 1.0
                obj['extra'].append(pc)
            if draw(st.booleans()):
                # the same objective written as maxof(p0 - g, p1 - g, ...) + g with a common affine term g(x) taken out
                obj['pw_shift'] = {'g': _vec(draw, nx), 'g0': float(draw(st.integers(-2, 2))), 'side': draw(st.sampled_from(['right', 'left', 'sub']))}
    late_rvar = draw(st.sampled_from([0, 0, 0, 1, 2]))
    if late_rvar == 2 and ny:
        # the sets get one more half-space g.z <= h that the model will state as a budget row 'w.sum() + g.z <= h' through a
        # non-negative random array w declared late: the projection onto z is the same set
        for s_ in sets:
            if any(p_['t'] in ('kl', 'budget') for p_ in s_['pieces']):
                continue
            g = [float(draw(st.integers(-1, 1))) for _ in range(s_['nz'])]
            if not any(g):
                g[0] = 1.0
            s_['pieces'].append({'t': 'poly', 'G': [g], 'h': [float(np.dot(g, s_['centre'])) + draw(st.sampled_from([0.25, 0.5, 1.0]))],
                                 'style': 'le', 'via_late': True})
    case = {'nx': nx, 'ny': ny, 'nz': nz, 'nu': nu, 'ymask': ymask, 'sets': sets, 'cons': cons,
            'xlo': xlo, 'xhi': xhi, 'obj': obj, 'witness': {'x': xbar, 'y0': ybar, 'Y': Ybar},
            'set_arg': draw(st.sampled_from(['list', 'tuple', 'varargs'])), 'late_rvar': late_rvar,
            'adapt_style': draw(st.sampled_from(['whole', 'entry', 'mixed'])),
            'xbound_style': draw(st.sampled_from(['bounds', 'rows']))}
    fill_constants(case)
    return case


def row_parts(row, x, y0, Y):
    """(k, g): row value = k + g.w at decisions (x, y0, Y)"""
    a0, A, b, c = (np.array(row[k], dtype=float) for k in ('a0', 'A', 'b', 'c'))
    k = a0 @ x + (b @ y0 if len(b) else 0.0) + (row['c0'] or 0.0)
    g = A.T @ x + (Y.T @ b if len(b) else 0.0) + c
    return float(k), np.asarray(g, dtype=float)


def fill_constants(case):
    """choose each row's constant so that the witness satisfies the row with the drawn slack (independent
    maximiser over the row's set).  Rows with given constants (equalities) are left alone."""
    w = case['witness']
    x, y0, Y = np.array(w['x']), np.array(w['y0']), np.array(w['Y']).reshape(case['ny'], case['nz'] + case['nu'])
    for con in case['cons']:
        if con.get('given'):
            continue
        s = case['sets'][con['set'] if con['set'] is not None else 0]
        for row in con['rows']:
            row['c0'] = 0.0
            k, g = row_parts(row, x, y0, Y)
            if con['sense'] == 'le':
                val, _, exact = rosets.maximise(s, g)
                if val is None:
                    val, exact = float(g @ rosets.centre_w(s)) + 10.0, False
                row['c0'] = -(k + val) - row['slack'] - (0.0 if exact else 0.5)
            else:
                val, _, exact = rosets.maximise(s, -g)
                if val is None:
                    val, exact = float(-g @ rosets.centre_w(s)) + 10.0, False
                row['c0'] = -(k - val) + row['slack'] + (0.0 if exact else 0.5)
            row['c0'] = float(row['c0'])


# ----------------------------------------------------------------------------- builder
def _row_expr(row, x, y, z, u, nz, style):
    a0 = np.array(row['a0'])
    A = np.array(row['A'])
    b = np.array(row['b'])
    c = np.array(row['c'])
    expr = row['c0'] if row['c0'] else 0.0
    started = False

    def add(e, t):
        nonlocal started
        if not started:
            started = True
            return t if (isinstance(e, float) and e == 0.0) else (t + e if style % 2 else e + t)
        return e + t
    if np.any(a0):
        expr = add(expr, a0 @ x if style != 2 else (a0 * x).sum())
    for (rv, M) in ((z, A[:, :nz]), (u, A[:, nz:])):
        if rv is None or not np.any(M):
            continue
        if style == 0:
            expr = add(expr, x @ (M @ rv))
        elif style == 1:
            expr = add(expr, (M @ rv) @ x)
        elif style == 2:
            expr = add(expr, ((M @ rv) * x).sum())
        elif style == 3:
            expr = add(expr, rv @ (M.T @ x))
        else:
            for i in range(M.shape[0]):
                for j in range(M.shape[1]):
                    if M[i, j]:
                        expr = add(expr, float(M[i, j]) * (x[i] * rv[j]))
    if y is not None and np.any(b):
        if style in (0, 1, 3):
            expr = add(expr, b @ y)
        else:
            for k in range(len(b)):
                if b[k]:
                    expr = add(expr, float(b[k]) * y[k])
    for (rv, cc) in ((z, c[:nz]), (u, c[nz:])):
        if rv is None:
            continue
        if not np.any(cc):
            if row.get('explicit_zero') and rv is z:
                expr = add(expr, cc @ rv)         # a random term with all-zero coefficients, written out
            continue
        expr = add(expr, cc @ rv if style != 2 else (cc * rv).sum())
    return expr


def _vec_expr(rows, x, y, z, u, nz, style):
    """array-valued expression stacking the rows (one multi-row robust constraint)"""
    A0 = np.array([r['a0'] for r in rows])
    Bm = np.array([r['b'] for r in rows])
    C = np.array([r['c'] for r in rows])
    c0 = np.array([r['c0'] or 0.0 for r in rows])
    m = len(rows)
    expr = A0 @ x + c0 if style % 2 == 0 else c0 + A0 @ x
    A3 = np.array([r['A'] for r in rows])           # m x nx x nw
    for (rv, off, n) in ((z, 0, nz), (u, nz, A3.shape[2] - nz)):
        if rv is None:
            continue
        blk = A3[:, :, off:off + n]
        if np.any(blk):
            if style in (0, 1, 4):
                for j in range(n):
                    if np.any(blk[:, :, j]):
                        expr = expr + (blk[:, :, j] @ x) * rv[j]
            else:
                Z = None
                for j in range(n):
                    if np.any(blk[:, :, j]):
                        t = rv[j] * blk[:, :, j]
                        Z = t if Z is None else Z + t
                expr = expr + Z @ x
        if np.any(C[:, off:off + n]):
            expr = expr + C[:, off:off + n] @ rv
    if y is not None and np.any(Bm):
        expr = expr + Bm @ y
    return expr


def build(case, order=None):
    """returns (model, handles)"""
    from rsome import ro
    m = ro.Model()
    nx, ny, nz, nu = case['nx'], case['ny'], case['nz'], case['nu']
    x = m.dvar(nx)
    z = m.rvar(nz)
    u = m.rvar(nu) if nu else None
    y = m.ldr(ny) if ny else None
    mask = np.array(case['ymask']).reshape(ny, nz + nu)
    if ny:
        for k in range(ny):
            for (rv, off, n) in ((z, 0, nz), (u, nz, nu)):
                if rv is None:
                    continue
                cols = mask[k, off:off + n]
                if not cols.any():
                    continue
                if case['adapt_style'] == 'whole' and mask[:, off:off + n].all():
                    if k == 0:
                        y.adapt(rv)
                elif cols.all() and case['adapt_style'] != 'entry':
                    y[k].adapt(rv)
                else:
                    for j in range(n):
                        if cols[j]:
                            y[k].adapt(rv[j])
    late = bool(case.get('late_rvar') and ny)
    sets_rs = [rosets.rsome_constraints(s, z, u, skip_via_late=late) for s in case['sets']]
    pre_exprs = {}
    if case.get('late_rvar') and ny:
        # one more random array declared after the adapt() calls - and, in mode 2, after the rule was used for the first time.
        # It only appears in the sets: either bounded by 1 in absolute value, or non-negative with a budget row that couples it to
        # z[0] without cutting anything off the projection onto z (the right-hand side is max z[0] over the set + 2)
        if case['late_rvar'] == 2:
            _used = y + 0
            # the left-hand sides of every other constraint are built now, before the random array exists
            for ci, con in enumerate(case['cons']):
                if ci % 2 == 0 and not con.get('vec'):
                    for ri, row in enumerate(con['rows']):
                        pre_exprs[(ci, ri)] = _row_expr(row, x, y, z, u, nz, con['style'])
        w_late = m.rvar(2)
        new_sets = []
        for s_, cs in zip(case['sets'], sets_rs):
            via = [p_ for p_ in s_['pieces'] if p_.get('via_late')]
            if not via:
                new_sets.append(cs + [abs(w_late) <= 1])
            else:
                new_sets.append(cs + [w_late >= 0, w_late <= 1, w_late.sum() + np.array(via[0]['G'][0]) @ z <= via[0]['h'][0]])
        sets_rs = new_sets

    def setarg(k):
        cs = sets_rs[k]
        if case['set_arg'] == 'list':
            return (cs,)
        if case['set_arg'] == 'tuple':
            return (tuple(cs),)
        return tuple(cs)
    o = case['obj']
    d0 = np.array(o['d0'])
    if o['kind'] in ('min', 'max'):
        e = d0 @ x + o['f0']
        (m.min if o['kind'] == 'min' else m.max)(e)
        # a default set is still needed for constraints without forall
        default_needed = any(c['set'] is None for c in case['cons'])
    else:
        row = {'a0': o['d0'], 'A': o['D'], 'b': o['e'], 'c': o['f'], 'c0': o['f0']}
        e = _row_expr(row, x, y, z, u, nz, o.get('style', 0))
        if o.get('extra'):
            import rsome as rso
            more = [_row_expr({'a0': pc['d0'], 'A': pc['D'], 'b': pc['e'], 'c': pc['f'], 'c0': pc['f0']}, x, y, z, u, nz,
                              o.get('style', 0)) for pc in o['extra']]
            sh = o.get('pw_shift')
            if sh:
                g = np.array(sh['g']) @ x + sh['g0']
                e, more = e - g, [q - g for q in more]
            e = rso.maxof(e, *more) if o['kind'] == 'minmax' else rso.minof(e, *more)
            if sh:
                e = e + g if sh['side'] == 'right' else g + e if sh['side'] == 'left' else e - (-g)
        (m.minmax if o['kind'] == 'minmax' else m.maxmin)(e, *setarg(0))
        default_needed = False
    xlo, xhi = np.array(case['xlo']), np.array(case['xhi'])
    if case['xbound_style'] == 'bounds':
        m.st(x >= xlo, x <= xhi)
    else:
        m.st(np.eye(nx) @ x >= xlo)
        m.st(-x >= -xhi)
    idx = list(range(len(case['cons'])))
    if order is not None:
        idx = [idx[i] for i in order]
    for ci in idx:
        con = case['cons'][ci]
        sc = con.get('scale', 1.0)
        cs = []
        for ri, row in enumerate(con['rows'] if not con.get('vec') else [None]):
            if row is None:
                e = _vec_expr(con['rows'], x, y, z, u, nz, con['style'])
            elif (ci, ri) in pre_exprs:
                e = pre_exprs[(ci, ri)]
            else:
                e = _row_expr(row, x, y, z, u, nz, con['style'])
            if sc != 1.0:
                e = sc * e
            if con['sense'] == 'le':
                c = (e <= 0)
            elif con['sense'] == 'ge':
                c = (e >= 0)
            else:
                c = (e == 0)
            k = con['set']
            if k is None and default_needed:
                k = 0
            if k is not None and hasattr(c, 'forall'):
                c = c.forall(*setarg(k))
            cs.append(c)
        if len(cs) == 1:
            m.st(cs[0])
        elif con['style'] % 2:
            m.st(cs)
        else:
            m.st(*cs)
    return m, {'x': x, 'y': y, 'z': z, 'u': u}


def conic_kinds(case):
    ks = set()
    for s in case['sets']:
        ks |= set(p['t'] for p in s['pieces'])
    return ks


def pick_solver(case, which='auto'):
    """solver module for the case: LP -> default (None); SOC -> ECOS or Gurobi; exp -> ECOS"""
    from rsome import eco_solver, grb_solver, ort_solver
    ks = conic_kinds(case)
    exp = bool(ks & {'kl'}) or any(isinstance(p.get('p'), float) for s in case['sets'] for p in s['pieces'] if p['t'] == 'pn')
    soc = bool(ks & {'l2', 'pn'})
    if which == 'auto':
        if exp or soc:
            return eco_solver, 'conic'
        return None, 'lp'
    if which == 'grb':
        if exp:
            return eco_solver, 'conic'
        return grb_solver, 'conic' if soc else 'lp'
    if which == 'eco':
        return eco_solver, 'conic'
    if which == 'ort' and not (exp or soc):
        return ort_solver, 'lp'
    return (eco_solver, 'conic') if (exp or soc) else (None, 'lp')


def solve(m, solver):
    with quiet():
        m.solve(solver, display=False)
    sol = m.solution
    if sol is None or sol.x is None or np.isnan(sol.objval):
        return None
    if 'lose' in str(sol.status):      # ECOS exit flag 10 'Close to optimal': reduced accuracy, treated as unsolved
        return None
    return m.get()


def read_solution(case, h):
    nx, ny, nz, nu = case['nx'], case['ny'], case['nz'], case['nu']
    x = np.array(h['x'].get(), dtype=float).reshape(nx)
    if ny:
        y0 = np.array(h['y'].get(), dtype=float).reshape(ny)
        Y = np.zeros((ny, nz + nu))
        mask = np.array(case['ymask']).reshape(ny, nz + nu)
        if mask.any():
            Yz = np.array(h['y'].get(h['z']), dtype=float).reshape(ny, nz)
            Y[:, :nz] = Yz
            if nu:
                Y[:, nz:] = np.array(h['y'].get(h['u']), dtype=float).reshape(ny, nu)
        nanpat = np.isnan(Y)
        Y = np.where(nanpat, 0.0, Y)
    else:
        y0, Y, nanpat = np.zeros(0), np.zeros((0, nz + nu)), np.zeros((0, nz + nu), dtype=bool)
    return x, y0, Y, nanpat


def obj_row(case):
    o = case['obj']
    nw = case['nz'] + case['nu']
    if o['kind'] in ('min', 'max'):
        return {'a0': o['d0'], 'A': [[0.0] * nw] * case['nx'], 'b': [0.0] * case['ny'], 'c': [0.0] * nw, 'c0': o['f0']}
    return {'a0': o['d0'], 'A': o['D'], 'b': o['e'], 'c': o['f'], 'c0': o['f0']}


def obj_rows(case):
    """all pieces of the objective: minmax of maxof(pieces) / maxmin of minof(pieces)"""
    out = [obj_row(case)]
    for pc in case['obj'].get('extra', []):
        out.append({'a0': pc['d0'], 'A': pc['D'], 'b': pc['e'], 'c': pc['f'], 'c0': pc['f0']})
    return out


# ----------------------------------------------------------------------------- reference solver
def reference_optimum(case, max_rounds=80, tol=1e-7):
    """Kelley cutting planes on the semi-infinite LP.  Returns (value, info) or (None, why)."""
    nx, ny, nz, nu = case['nx'], case['ny'], case['nz'], case['nu']
    nw = nz + nu
    mask = np.array(case['ymask']).reshape(ny, nw).astype(bool)
    midx = [(k, j) for k in range(ny) for j in range(nw) if mask[k, j]]
    nv = nx + ny + len(midx) + 1
    T = nv - 1
    o = case['obj']
    sign = 1.0 if o['kind'] in ('min', 'minmax') else -1.0
    BIG = 1e4

    def unpack(v):
        x = v[:nx]
        y0 = v[nx:nx + ny]
        Y = np.zeros((ny, nw))
        for p, (k, j) in enumerate(midx):
            Y[k, j] = v[nx + ny + p]
        return x, y0, Y

    def cut(row, w, sgn):
        """coefficients (over v) and constant of sgn*(row at w)"""
        a0, A, b, c = (np.array(row[k], dtype=float) for k in ('a0', 'A', 'b', 'c'))
        coef = np.zeros(nv)
        coef[:nx] = a0 + A @ w
        coef[nx:nx + ny] = b
        for p, (k, j) in enumerate(midx):
            coef[nx + ny + p] = b[k] * w[j]
        const = c @ w + (row['c0'] or 0.0)
        return sgn * coef, sgn * const
    rows = []     # (row, set, sgn) all as "sgn*row <= 0"
    for con in case['cons']:
        s = case['sets'][con['set'] if con['set'] is not None else 0]
        for row in con['rows']:
            if con['sense'] in ('le', 'eq'):
                rows.append((row, s, 1.0))
            if con['sense'] in ('ge', 'eq'):
                rows.append((row, s, -1.0))
    orows = obj_rows(case)
    orow = orows[0]
    oset = case['sets'][0]
    A_ub, b_ub = [], []

    def add_cut(row, w, sgn, is_obj=False):
        coef, const = cut(row, w, sgn)
        if is_obj:
            coef = coef.copy()
            coef[T] = -1.0
        A_ub.append(coef)
        b_ub.append(-const)
    for (row, s, sgn) in rows:
        add_cut(row, rosets.centre_w(s), sgn)
    for orow_ in orows:
        add_cut(orow_, rosets.centre_w(oset), sign, True)
    bounds = [(case['xlo'][i], case['xhi'][i]) for i in range(nx)] + [(-BIG, BIG)] * (ny + len(midx)) + [(-1e7, 1e7)]
    cost = np.zeros(nv)
    cost[T] = 1.0
    nominal = None
    for rnd in range(max_rounds):
        res = linprog(cost, A_ub=np.array(A_ub), b_ub=np.array(b_ub), bounds=bounds, method='highs')
        if res.status == 2:
            return None, 'reference infeasible'
        if res.status != 0:
            return None, 'master status %d' % res.status
        v = res.x
        if nominal is None:
            nominal = sign * float(v[T])     # cuts at the set centres only = the nominal problem
        x, y0, Y = unpack(v)
        worst = 0.0
        added = 0
        for (row, s, sgn) in rows + [(orow_, oset, sign) for orow_ in orows]:
            is_obj = any(row is orow_ for orow_ in orows)
            k, g = row_parts(row, x, y0, Y)
            val, w, exact = rosets.maximise(s, sgn * g)
            if val is None or not exact:
                return None, 'no exact maximiser'
            viol = sgn * k + val - (v[T] if is_obj else 0.0)
            if viol > tol:
                if rosets.violation(s, np.asarray(w, dtype=float)) > 1e-7:
                    return None, 'separation point is not a member'     # guards the reference itself
                add_cut(row, np.asarray(w, dtype=float), sgn, is_obj)
                added += 1
                worst = max(worst, viol)
        if not added:
            if np.any(np.abs(v[nx:nx + ny + len(midx)]) > BIG * 0.99) or abs(v[T]) > 0.99e7:
                return None, 'artificial bound active'
            return sign * float(v[T]), {'rounds': rnd + 1, 'cuts': len(A_ub), 'x': x, 'y0': y0, 'Y': Y,
                                         'nominal': nominal}
    return None, 'cutting planes did not converge'
