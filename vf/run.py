"""CLI: python -m vf.run <ID> <quick|thorough> | <ID> --replay <path>"""
import os
import sys


def main():
    if os.environ.get('PYTHONHASHSEED') != '0':
        env = dict(os.environ)
        env['PYTHONHASHSEED'] = '0'
        root = os.path.dirname(os.path.dirname(os.path.abspath(__file__)))
        env['PYTHONPATH'] = os.pathsep.join([root, os.environ.get('VERIF_REPO', '/repo')] + ([env['PYTHONPATH']] if env.get('PYTHONPATH') else []))
        env.setdefault('OMP_NUM_THREADS', '1')
        env.setdefault('OPENBLAS_NUM_THREADS', '1')
        env.setdefault('MKL_NUM_THREADS', '1')
        os.execve(sys.executable, [sys.executable, '-m', 'vf.run'] + sys.argv[1:], env)
    from vf import core
    if len(sys.argv) < 3:
        print('usage: check <ID> <quick|thorough> | <ID> --replay <path>', file=sys.stderr)
        sys.exit(2)
    pid = sys.argv[1].upper()
    if sys.argv[2] == '--replay':
        sys.exit(core.replay(pid, sys.argv[3]))
    tier = sys.argv[2]
    if tier not in ('quick', 'thorough'):
        tier = os.environ.get('VERIF_TIER', 'quick')
    seed = int(os.environ.get('VERIF_SEED', '1') or '1')
    try:
        rc = core.run_property(pid, tier, seed)
    except Exception:
        import traceback
        traceback.print_exc()
        rc = 2
    sys.exit(rc)


if __name__ == '__main__':
    main()
