"""fd-level silencing of stdout/stderr (ECOS and Gurobi print from C)."""
import contextlib
import os
import sys
import warnings


@contextlib.contextmanager
def quiet():
    sys.stdout.flush()
    sys.stderr.flush()
    devnull = os.open(os.devnull, os.O_WRONLY)
    so, se = os.dup(1), os.dup(2)
    try:
        os.dup2(devnull, 1)
        os.dup2(devnull, 2)
        with warnings.catch_warnings():
            warnings.simplefilter('ignore')
            yield
    finally:
        sys.stdout.flush()
        sys.stderr.flush()
        os.dup2(so, 1)
        os.dup2(se, 2)
        os.close(devnull)
        os.close(so)
        os.close(se)
