"""single-process debugging run: python -m vf.debug <ID> <n> <seed>"""
import sys, json, collections, time
from hypothesis import given, seed as hseed
from vf import core

def main():
    pid, n, sd = sys.argv[1].upper(), int(sys.argv[2]), int(sys.argv[3])
    tier = sys.argv[4] if len(sys.argv) > 4 else 'quick'
    prop = core.load_prop(pid)
    cnt = collections.Counter(); first = {}; times = []
    @hseed(sd)
    @core._hyp_settings(n, False)
    @given(prop.strategy(tier))
    def body(case):
        t0 = time.time()
        out = core.safe_check(prop, case)
        times.append(time.time() - t0)
        key = out.status + ':' + (out.bucket or (out.labels[-1] if out.status in ('rsome_error', 'skip', 'inconclusive') else ''))
        cnt[key] += 1
        if out.status not in ('ok',) and key not in first:
            first[key] = (out.msg, case)
    body()
    for k, v in sorted(cnt.items()):
        print(v, k)
    print('mean time %.3fs max %.3fs' % (sum(times) / len(times), max(times)))
    for k, (msg, case) in first.items():
        print('=====', k); print(msg[-1800:]); print(json.dumps(case)[:600])
        fn='/tmp/dbg_%s_%s.json' % (pid, ''.join(ch if ch.isalnum() else '_' for ch in k)[:60])
        json.dump({'case': case}, open(fn, 'w')); print('  ->', fn)

main()
