"""Deterministic model IR (shared by C06, C07, C08, C11, C14, C16, C18, C19).

A case is a JSON-able dict:
  front    'ro' | 'dro'
  n        number of variables (one array x; entries may be typed 'C','I','B' through `vtypes`)
  vtypes   per-entry type string, e.g. 'CCIB'  (arrays are declared per maximal run of equal type)
  bounds   per entry [kind, lo, hi], kind in free/lb/ub/box/fix  (lo/hi None when absent)
  lin      list of {A (m x n), b (m), sense le|ge|eq, style}
  atoms    list of atom uses (see ATOMS): kappa*f(M x + v) + o.x + o0  <=  r.x + r0   (>= for concave atoms)
  obj      {sense min|max, c (n), c0, atom: optional atom use index-free spec}
  witness  a point satisfying everything strictly where possible

Everything numeric about atoms (NumPy semantics) is written here independently of RSOME.
"""
import numpy as np
from hypothesis import strategies as st

from vf.quiet import quiet

# ----------------------------------------------------------------------------- atoms: NumPy semantics


def _pn(u, p):
    return float(np.sum(np.abs(u) ** p) ** (1.0 / p))


def atom_value(a, u, s=None):
    """value of atom `a` (spec dict) at argument vector u (and scale s for perspectives)"""
    t = a['atom']
    u = np.asarray(u, dtype=float)
    if t == 'abs':
        return np.abs(u)
    if t == 'norm1':
        return float(np.sum(np.abs(u)))
    if t == 'norm2':
        return float(np.sqrt(np.sum(u ** 2)))
    if t == 'norminf':
        return float(np.max(np.abs(u)))
    if t == 'pnorm':
        p = a['p']
        p = p[0] / p[1] if isinstance(p, list) else float(p)
        return _pn(u, p)
    if t == 'square':
        return u ** 2
    if t == 'sumsqr':
        return float(np.sum(u ** 2))
    if t == 'quad':
        Q = np.array(a['Q'], dtype=float)
        return float(u @ Q @ u)
    if t == 'power':
        if a.get('shape2'):
            # 2-D argument with exponents given per row (shape (rows, 1)) or per column (shape (cols,)): NumPy broadcasting
            pp = np.array(a['p'], dtype=float).reshape(a['pshape'])
            qq = np.array(a['q'], dtype=float).reshape(a['pshape']) if isinstance(a['q'], list) else float(a['q'])
            return (np.abs(u.reshape(a['shape2'])) ** (pp / qq)).ravel()
        return np.abs(u) ** (np.array(a['p'], dtype=float) / np.array(a['q'], dtype=float))
    if t == 'exp':
        return np.exp(u)
    if t == 'pexp':
        s = np.maximum(s, 1e-300)           # closure of the perspective at scale 0
        with np.errstate(all='ignore'):
            return s * np.exp(np.minimum(u / s, 700.0))
    if t == 'softplus':
        return np.log1p(np.exp(u))
    if t == 'gmean':
        b = np.array(a['beta'], dtype=float)
        return float(np.prod(np.maximum(u, 0) ** b) ** (1.0 / b.sum()))
    if t == 'log':
        return np.log(u)
    if t == 'plog':
        s = np.maximum(s, 1e-300)           # closure of the perspective at scale 0
        return s * np.log(np.maximum(u, 1e-300) / s)
    if t == 'entropy':
        uu = np.maximum(u, 1e-300)          # closure: 0*log(0) = 0
        return float(-np.sum(uu * np.log(uu)))
    if t == 'sumexp':
        return float(np.sum(np.exp(u)))
    if t == 'sumlog':
        return float(np.sum(np.log(u)))
    if t == 'maxof':
        return float(np.max(u))
    if t == 'minof':
        return float(np.min(u))
    raise ValueError(t)


# name: (curvature, result 'elem'|'scalar', domain 'any'|'pos', layer)
ATOMS = {
    'abs': ('cvx', 'elem', 'any', 'lp'),
    'norm1': ('cvx', 'scalar', 'any', 'lp'),
    'norminf': ('cvx', 'scalar', 'any', 'lp'),
    'norm2': ('cvx', 'scalar', 'any', 'soc'),
    'pnorm': ('cvx', 'scalar', 'any', 'soc'),      # layer 'exp' when p is a float
    'square': ('cvx', 'elem', 'any', 'soc'),
    'sumsqr': ('cvx', 'scalar', 'any', 'soc'),
    'quad': ('cvx', 'scalar', 'any', 'soc'),        # ccv when Q is NSD
    'power': ('cvx', 'elem', 'any', 'soc'),
    'gmean': ('ccv', 'scalar', 'pos', 'soc'),
    'exp': ('cvx', 'elem', 'any', 'exp'),
    'pexp': ('cvx', 'elem', 'any', 'exp'),
    'softplus': ('cvx', 'elem', 'any', 'exp'),
    'log': ('ccv', 'elem', 'pos', 'exp'),
    'plog': ('ccv', 'elem', 'pos', 'exp'),
    'entropy': ('ccv', 'scalar', 'pos', 'exp'),
    'sumexp': ('cvx', 'scalar', 'any', 'exp'),      # exp(u).sum()
    'sumlog': ('ccv', 'scalar', 'pos', 'exp'),      # log(u).sum()
    'maxof': ('cvx', 'scalar', 'any', 'lp'),
    'minof': ('ccv', 'scalar', 'any', 'lp'),
}


def atom_layer(a):
    t = a['atom']
    if t == 'pnorm' and isinstance(a['p'], float):
        return 'exp'
    return ATOMS[t][3]


def atom_curv(a):
    if a['atom'] == 'quad' and a.get('nsd'):
        return 'ccv'
    return ATOMS[a['atom']][0]


def model_layer(case):
    layers = [atom_layer(a) for a in case['atoms']] + [c['t'] for c in case.get('cones', [])]
    if case['obj'].get('atom'):
        layers.append(atom_layer(case['obj']['atom']))
    if 'exp' in layers or 'expcone' in layers or 'kldiv' in layers:
        return 'exp'
    if 'soc' in layers or 'rsocone' in layers:
        return 'soc'
    return 'lp'


# ----------------------------------------------------------------------------- reference evaluation
def atom_lhs(a, x):
    """kappa*f(Mx+v) + o.x + o0  minus  (r.x + r0); <=0 for convex uses, >=0 for concave uses"""
    M, v = np.array(a['M'], dtype=float), np.array(a['v'], dtype=float)
    u = M @ x + v
    s = None
    if a['atom'] in ('pexp', 'plog'):
        s = np.array(a['sM'], dtype=float) @ x + np.array(a['sv'], dtype=float)
    f = atom_value(a, u, s)
    off = np.array(a['o'], dtype=float) @ x + np.array(a['o0'], dtype=float)
    rhs = np.array(a['r'], dtype=float) @ x + np.array(a['r0'], dtype=float)
    return a['kappa'] * f + off - rhs


def in_domain(a, x, margin=0.0):
    if ATOMS[a['atom']][2] != 'pos':
        if a['atom'] == 'pexp':
            s = np.array(a['sM'], dtype=float) @ x + np.array(a['sv'], dtype=float)
            return bool(np.all(s > margin))
        return True
    u = np.array(a['M'], dtype=float) @ x + np.array(a['v'], dtype=float)
    ok = bool(np.all(u > margin))
    if a['atom'] == 'plog':
        s = np.array(a['sM'], dtype=float) @ x + np.array(a['sv'], dtype=float)
        ok = ok and bool(np.all(s > margin))
    return ok


def residuals(case, x):
    """list of (name, violation>=0 means violated by that much, scale) for every user constraint at x"""
    out = []
    x = np.asarray(x, dtype=float)
    for j, (kind, lo, hi) in enumerate(case['bounds']):
        if lo is not None:
            out.append(('lb%d' % j, lo - x[j], 1 + abs(lo)))
        if hi is not None:
            out.append(('ub%d' % j, x[j] - hi, 1 + abs(hi)))
    for i, c in enumerate(case['lin']):
        A, b = np.array(c['A'], dtype=float), np.array(c['b'], dtype=float)
        val = A @ x - b
        sc = 1 + np.abs(A) @ np.abs(x) + np.abs(b)
        for k in range(len(b)):
            if c['sense'] == 'le':
                out.append(('lin%d.%d' % (i, k), val[k], sc[k]))
            elif c['sense'] == 'ge':
                out.append(('lin%d.%d' % (i, k), -val[k], sc[k]))
            else:
                out.append(('lin%d.%d' % (i, k), abs(val[k]), sc[k]))
    for i, a in enumerate(case['atoms']):
        if not in_domain(a, x, -1e-6):      # solver tolerance at the boundary of the domain (entropy/log arguments at 0)
            out.append(('atom%d:%s:domain' % (i, a['atom']), 1.0, 1.0))
            continue
        with np.errstate(all='ignore'):
            val = np.atleast_1d(atom_lhs(a, np.where(np.abs(x) < 1e-300, 0.0, x)))
        sc = 1 + float(np.max(np.abs(val))) + float(np.abs(np.atleast_1d(np.array(a['r0'], dtype=float))).max())
        sgn = 1.0 if atom_curv(a) == 'cvx' else -1.0
        for k, vv in enumerate(val):
            if not np.isfinite(vv):
                out.append(('atom%d:%s' % (i, a['atom']), 1.0, 1.0))
            else:
                out.append(('atom%d:%s' % (i, a['atom']), sgn * vv, sc))
    for i, c in enumerate(case.get('cones', [])):
        out.append(cone_residual(i, c, x))
    types = case['vtypes']
    for j, t in enumerate(types):
        if t in 'IB':
            out.append(('int%d' % j, abs(x[j] - round(x[j])) - 1e-6, 1.0))
        if t == 'B':
            out.append(('bin%d' % j, max(-x[j], x[j] - 1), 1.0))
    return out


def cone_residual(i, c, x):
    t = c['t']
    if t == 'rsocone':
        u = np.array(c['M']) @ x + np.array(c['v'])
        y = np.array(c['y']) @ x + c['y0']
        z = np.array(c['z']) @ x + c['z0']
        viol = max(float(u @ u - y * z), -y, -z)
        return ('rsocone%d' % i, viol, 1 + float(u @ u) + abs(y * z))
    if t == 'expcone':      # z*exp(x/z) <= y
        y = np.array(c['y']) @ x + c['y0']
        xx = np.array(c['x']) @ x + c['x0']
        z = np.array(c['z']) @ x + c['z0']
        if z <= 1e-7:
            # closure of the exponential cone: z = 0 with x <= 0 and y >= 0 is a member
            return ('expcone%d' % i, max(-z, xx if abs(z) <= 1e-7 else 1.0, -y), 1 + abs(y) + abs(xx))
        viol = float(z * np.exp(min(xx / z, 700.0)) - y)
        return ('expcone%d' % i, viol, 1 + abs(y))
    if t == 'kldiv':
        p = np.array(c['M']) @ x + np.array(c['v'])
        q = np.array(c['q'], dtype=float)
        if np.any(p < -1e-6):
            return ('kldiv%d' % i, float(-np.min(p)), 1.0)
        pp = np.maximum(p, 1e-300)
        kl = float(np.sum(np.where(p > 0, pp * np.log(pp / q), 0.0)))
        return ('kldiv%d' % i, kl - c['r'], 1 + abs(c['r']))
    raise ValueError(t)


def objective_value(case, x):
    o = case['obj']
    x = np.asarray(x, dtype=float)
    val = float(np.array(o['c'], dtype=float) @ x + o['c0'])
    if o.get('atom'):
        a = o['atom']
        u = np.array(a['M'], dtype=float) @ x + np.array(a['v'], dtype=float)
        s = None
        if a['atom'] in ('pexp', 'plog'):
            s = np.array(a['sM'], dtype=float) @ x + np.array(a['sv'], dtype=float)
        val += a['kappa'] * float(np.sum(atom_value(a, u, s)))
    return val


# ----------------------------------------------------------------------------- generation
COEF = [-2.0, -1.0, -1.0, 0.0, 0.0, 1.0, 1.0, 2.0, 0.5]
NZ = [-2.0, -1.0, 1.0, 2.0, 0.5, -0.5]


def _row(draw, n, dens=0.6):
    r = [draw(st.sampled_from(NZ)) if draw(st.integers(0, 9)) < 10 * dens else 0.0 for _ in range(n)]
    if not any(r):
        r[draw(st.integers(0, n - 1))] = draw(st.sampled_from(NZ))
    return r


@st.composite
def atom_use(draw, n, xbar, names, as_objective=False, allow_off=True, strict=False):
    """an atom use that holds at the witness with a drawn slack (slack 0 allowed)"""
    name = draw(st.sampled_from(names))
    curv, res, dom, layer = ATOMS[name]
    k = draw(st.integers(1, 4 if name == 'power' else 3))
    if name in ('gmean',):
        k = draw(st.integers(2, 3))
    if as_objective and res == 'elem' and name not in ('exp', 'log'):
        k = 1          # objectives are scalar; only exp/log support .sum()
    M = [_row(draw, n) for _ in range(k)]
    a = {'atom': name, 'M': M}
    xb = np.array(xbar)
    if dom == 'pos':
        target = [draw(st.sampled_from([0.5, 1.0, 2.0, 3.0])) for _ in range(k)]
    else:
        target = [draw(st.sampled_from([-2.0, -1.0, 0.0, 0.5, 1.0, 2.0])) for _ in range(k)]
    a['v'] = list(np.array(target) - np.array(M) @ xb)
    if name == 'pnorm':
        a['p'] = draw(st.sampled_from([3, 4, 5, [3, 2], [5, 3], [7, 2], 2.5, 1.5]))
    if name == 'power':
        PQ = [(2, 1), (3, 1), (3, 2), (4, 3), (5, 2), (4, 1)]
        mode = draw(st.sampled_from(['scalar', 'scalar', 'vector', 'rows', 'cols'])) if not as_objective else 'scalar'
        if mode == 'scalar' or k == 1:
            p, q = draw(st.sampled_from(PQ))
            a['p'], a['q'] = p, q
        elif mode == 'vector':
            # mixed exponent arrays may contain exponent one (p == q: the entry is |u|)
            pq = [draw(st.sampled_from(PQ + [(1, 1), (2, 2)])) for _ in range(k)]
            if draw(st.booleans()):
                pq[draw(st.integers(0, k - 1))] = draw(st.sampled_from([(1, 1), (2, 2), (3, 3)]))
            a['p'], a['q'] = [v[0] for v in pq], [v[1] for v in pq]
        else:
            # 2-D argument (rows x cols = k) with exponents per row (shape (rows,1)) or per column (shape (cols,))
            rows = 2 if k % 2 == 0 else 1
            if k == 3:
                rows = draw(st.sampled_from([1, 3]))
            cols = k // rows
            a['shape2'] = [rows, cols]
            cnt = rows if mode == 'rows' else cols
            pq = [draw(st.sampled_from(PQ + [(1, 1), (3, 3)])) for _ in range(cnt)]
            a['p'] = [v[0] for v in pq]
            a['q'] = [v[1] for v in pq] if draw(st.booleans()) else 1
            a['pshape'] = [rows, 1] if mode == 'rows' else [cols]
    if name == 'gmean':
        a['beta'] = [draw(st.integers(1, 3)) for _ in range(k)]
    if name == 'quad':
        L = np.array([[draw(st.sampled_from([-1.0, 0.0, 1.0, 2.0])) if j <= i else 0.0 for j in range(k)] for i in range(k)])
        Q = L @ L.T
        a['nsd'] = draw(st.integers(0, 3)) == 0 and bool(np.any(Q))
        if a['nsd']:
            Q = -Q
        a['Q'] = Q.tolist()
    if name in ('pexp', 'plog'):
        srow = _row(draw, n, 0.4)
        scale_t = draw(st.sampled_from([0.5, 1.0, 2.0]))
        a['sM'] = [srow] if draw(st.booleans()) else [[0.0] * n]
        a['sv'] = [scale_t - float(np.array(a['sM'][0]) @ xb)]
        a['sM'] = a['sM'] * 1
    a['kappa'] = draw(st.sampled_from([1.0, 1.0, 2.0, 0.5, 3.0]))
    relem = k if res == 'elem' else 1
    if as_objective:
        a['o'] = [[0.0] * n] * relem
        a['o0'] = [0.0] * relem
        a['r'] = [[0.0] * n] * relem
        a['r0'] = [0.0] * relem
        return a
    if allow_off and draw(st.integers(0, 2)) == 0:
        a['o'] = [_row(draw, n, 0.3) if draw(st.booleans()) else [0.0] * n for _ in range(relem)]
        a['o0'] = [draw(st.sampled_from([-1.0, 0.0, 1.0])) for _ in range(relem)]
    else:
        a['o'] = [[0.0] * n for _ in range(relem)]
        a['o0'] = [0.0] * relem
    a['r'] = [_row(draw, n, 0.4) if draw(st.integers(0, 2)) else [0.0] * n for _ in range(relem)]
    a['r0'] = [0.0] * relem
    if res == 'scalar':
        # scalar atoms keep 1-element lists; the builder turns them into scalars
        pass
    slack = [draw(st.sampled_from([0.5, 1.0, 2.0] if strict else [0.0, 0.5, 1.0, 2.0])) for _ in range(relem)]
    lhs = np.atleast_1d(atom_lhs(a, xb))
    sgn = 1.0 if atom_curv(a) == 'cvx' else -1.0
    a['r0'] = list(lhs + sgn * np.array(slack))
    a['spell'] = draw(st.integers(0, 5))
    return a


@st.composite
def cone_use(draw, n, xbar, kinds, strict=False):
    """rsocone / expcone / kldiv constraint holding at the witness"""
    xb = np.array(xbar)
    t = draw(st.sampled_from(list(kinds)))
    slack = draw(st.sampled_from([0.5, 1.0, 2.0] if strict else [0.0, 0.5, 1.0]))

    def scal(target):
        row = _row(draw, n, 0.5)
        return row, float(target - np.array(row) @ xb)
    if t == 'rsocone':
        k = draw(st.integers(1, 3))
        M = [_row(draw, n) for _ in range(k)]
        tgt = np.array([draw(st.sampled_from([-1.0, 0.0, 0.5, 1.0])) for _ in range(k)])
        v = list(tgt - np.array(M) @ xb)
        yt = draw(st.sampled_from([0.5, 1.0, 2.0]))
        zt = (float(tgt @ tgt) + slack) / yt + (0.5 if strict or float(tgt @ tgt) + slack == 0 else 0.0)
        y, y0 = scal(yt)
        z, z0 = scal(zt)
        return {'t': 'rsocone', 'M': M, 'v': [float(a) for a in v], 'y': y, 'y0': y0, 'z': z, 'z0': z0}
    if t == 'expcone':
        zt = draw(st.sampled_from([0.5, 1.0, 2.0]))
        xt = draw(st.sampled_from([-1.0, 0.0, 0.5, 1.0]))
        yt = zt * float(np.exp(xt / zt)) + slack
        y, y0 = scal(yt)
        xx, x0 = scal(xt)
        if draw(st.booleans()):
            z, z0 = [0.0] * n, zt
        else:
            z, z0 = scal(zt)
        return {'t': 'expcone', 'y': y, 'y0': y0, 'x': xx, 'x0': x0, 'z': z, 'z0': z0}
    k = draw(st.integers(2, 3))
    M = [_row(draw, n) for _ in range(k)]
    tgt = np.array([draw(st.sampled_from([0.25, 0.5, 1.0])) for _ in range(k)])
    v = list(tgt - np.array(M) @ xb)
    q = [draw(st.sampled_from([0.25, 0.5, 1.0])) for _ in range(k)]
    kl = float(np.sum(tgt * np.log(tgt / np.array(q))))
    return {'t': 'kldiv', 'M': M, 'v': [float(a) for a in v], 'q': q, 'r': kl + max(slack, 0.25)}


BOUND_KINDS = ['free', 'lb0', 'ub0', 'lb', 'ub', 'box', 'box', 'fix0', 'fixc']


def draw_bound(draw, kind, xbar_j):
    """returns ([kind, lo, hi], possibly adjusted witness entry)"""
    d1 = draw(st.sampled_from([0.5, 1.0, 2.0, 3.0]))
    d2 = draw(st.sampled_from([0.5, 1.0, 2.0, 3.0]))
    if kind == 'free':
        return ['free', None, None], xbar_j
    if kind == 'lb0':
        return ['lb', 0.0, None], abs(xbar_j) + (0.5 if xbar_j == 0 else 0.0)
    if kind == 'ub0':
        return ['ub', None, 0.0], -abs(xbar_j) - (0.5 if xbar_j == 0 else 0.0)
    if kind == 'lb':
        return ['lb', xbar_j - d1, None], xbar_j
    if kind == 'ub':
        return ['ub', None, xbar_j + d2], xbar_j
    if kind == 'box':
        return ['box', xbar_j - d1, xbar_j + d2], xbar_j
    if kind == 'fix0':
        return ['fix', 0.0, 0.0], 0.0
    if kind == 'fixc':
        c = xbar_j if xbar_j != 0 else 1.0
        return ['fix', c, c], c
    raise ValueError(kind)


@st.composite
def det_case(draw, atom_names=None, bound_kinds=None, max_atoms=2, int_ok=False, bounded_by='dual',
             fronts=('ro', 'dro'), obj_atom_prob=0.0, cones=False, strict=False, frac_int=False):
    """a feasible, bounded deterministic model.
    frac_int -> integer columns keep fractional bounds half of the time (z <= 2.5 means z <= 2 for an integer z)
    bounded_by='box'  -> every variable gets finite bounds (any objective is bounded)
    bounded_by='dual' -> the objective is a non-negative combination of active-side constraint normals."""
    n = draw(st.integers(1, 5))
    kinds = bound_kinds or BOUND_KINDS
    xbar = [float(draw(st.integers(-3, 3))) for _ in range(n)]
    vtypes = ['C'] * n
    if int_ok:
        for j in range(n):
            vtypes[j] = draw(st.sampled_from(['C', 'I', 'I', 'B'] if frac_int else ['C', 'C', 'I', 'B']))
    bounds = []
    for j in range(n):
        if vtypes[j] == 'B':
            xbar[j] = float(draw(st.integers(0, 1)))
            kind = draw(st.sampled_from(['free', 'box01', 'fixb', 'wide']))
            if kind == 'free':
                bounds.append(['free', None, None])
            elif kind == 'box01':
                bounds.append(['box', 0.0, 1.0])
            elif kind == 'fixb':
                bounds.append(['fix', xbar[j], xbar[j]])
            else:
                bounds.append(['box', -2.0, 3.0])
            continue
        kind = 'box' if bounded_by == 'box' else draw(st.sampled_from(kinds))
        if vtypes[j] == 'I' and kind in ('lb', 'ub', 'box'):
            b, xbar[j] = draw_bound(draw, kind, xbar[j])
            b = [b[0], None if b[1] is None else float(np.floor(b[1])), None if b[2] is None else float(np.ceil(b[2]))]
            if frac_int and draw(st.booleans()):
                # the integer witness stays inside: the bounds move inward by less than one
                f1, f2 = draw(st.sampled_from([0.0, 0.3, 0.5, 0.7])), draw(st.sampled_from([0.0, 0.3, 0.5, 0.7]))
                b = [b[0], None if b[1] is None else (b[1] + f1 if b[1] + f1 <= xbar[j] else b[1] - f1),
                     None if b[2] is None else (b[2] - f2 if b[2] - f2 >= xbar[j] else b[2] + f2)]
        else:
            b, xbar[j] = draw_bound(draw, kind, xbar[j])
        bounds.append(b)
    xb = np.array(xbar)
    lin = []
    for _ in range(draw(st.integers(0, 3))):
        m = draw(st.integers(1, 3))
        A = [_row(draw, n) for _ in range(m)]
        sense = draw(st.sampled_from(['le', 'le', 'ge', 'eq']))
        Ax = np.array(A) @ xb
        if sense == 'eq':
            b = list(Ax)
        elif sense == 'le':
            b = list(Ax + np.array([draw(st.sampled_from([0.0, 0.5, 1.0, 2.0])) for _ in range(m)]))
        else:
            b = list(Ax - np.array([draw(st.sampled_from([0.0, 0.5, 1.0, 2.0])) for _ in range(m)]))
        lin.append({'A': A, 'b': [float(v) for v in b], 'sense': sense, 'style': draw(st.integers(0, 3))})
    atoms = []
    names = atom_names if atom_names is not None else list(ATOMS)
    if names:
        for _ in range(draw(st.integers(0, max_atoms))):
            atoms.append(draw(atom_use(n, xbar, names, strict=strict)))
    obj = {'sense': draw(st.sampled_from(['min', 'max'])), 'c0': float(draw(st.integers(-1, 1)))}
    if bounded_by == 'box':
        obj['c'] = _row(draw, n, 0.7)
    else:
        # dual-feasible objective: for 'min', c = sum of multipliers times constraint normals pointing inward
        c = np.zeros(n)
        sg = 1.0 if obj['sense'] == 'min' else -1.0
        for j, (kind, lo, hi) in enumerate(bounds):
            if kind == 'fix':
                c[j] += draw(st.sampled_from([-1.0, 0.0, 1.0, 2.0]))
            elif lo is not None and hi is not None:
                c[j] += draw(st.sampled_from([-1.0, 0.0, 1.0]))
            elif lo is not None:
                c[j] += sg * draw(st.sampled_from([0.0, 1.0, 2.0]))
            elif hi is not None:
                c[j] -= sg * draw(st.sampled_from([0.0, 1.0, 2.0]))
        for con in lin:
            A = np.array(con['A'])
            for k in range(A.shape[0]):
                lam = draw(st.sampled_from([0.0, 0.0, 1.0, 0.5, 2.0]))
                if con['sense'] == 'le':
                    c -= sg * lam * A[k]
                elif con['sense'] == 'ge':
                    c += sg * lam * A[k]
                else:
                    c += draw(st.sampled_from([-1.0, 1.0])) * lam * A[k]
        obj['c'] = [float(v) for v in c]
    if obj_atom_prob and names and draw(st.floats(0, 1)) < obj_atom_prob:
        oa = draw(atom_use(n, xbar, names, as_objective=True))
        want = 'cvx' if obj['sense'] == 'min' else 'ccv'
        if atom_curv(oa) == want:
            obj['atom'] = oa
        else:
            obj['sense'] = 'min' if atom_curv(oa) == 'cvx' else 'max'
            obj['atom'] = oa
            if bounded_by != 'box':
                obj['c'] = [0.0] * n
    cone_list = []
    if cones:
        for _ in range(draw(st.integers(0, 2))):
            cone_list.append(draw(cone_use(n, xbar, cones if isinstance(cones, (list, tuple)) else ['rsocone', 'expcone', 'kldiv'],
                                           strict=strict)))
    case = {'front': draw(st.sampled_from(list(fronts))), 'n': n, 'vtypes': ''.join(vtypes), 'bounds': bounds,
            'loose_bounds': draw(st.sampled_from([0, 0, 1, 2])),
            'lin': lin, 'atoms': atoms, 'cones': cone_list, 'obj': obj, 'witness': [float(v) for v in xbar],
            'decl': draw(st.sampled_from(['one', 'split'])), 'bound_style': draw(st.sampled_from(['array', 'entry', 'rows', 'slice']))}
    if case['front'] == 'dro':      # kldiv() on decisions is rejected (TypeError) by the dro front end
        case['cones'] = [c for c in case['cones'] if c['t'] != 'kldiv']
    return case


# ----------------------------------------------------------------------------- builder
def _aff(rowM, v, x):
    """RSOME affine expression M@x + v (M: k x n array)"""
    M = np.array(rowM, dtype=float)
    v = np.array(v, dtype=float)
    return M @ x + v


def _atom_expr(a, x):
    """RSOME expression kappa*f(Mx+v) (not yet with offsets)"""
    import rsome as rso
    M, v = np.array(a['M'], dtype=float), np.array(a['v'], dtype=float)
    u = M @ x + v
    t = a['atom']
    meth = a.get('spell', 0) % 2 == 1
    if t == 'abs':
        f = abs(u)
    elif t == 'norm1':
        f = u.norm(1) if meth else rso.norm(u, 1)
    elif t == 'norm2':
        form = a.get('spell', 0) // 2 % 3
        if form == 1:
            f = rso.fnorm(u)                                   # Frobenius norm of one array
        elif form == 2 and len(v) > 1:
            f = rso.fnorm(u[:1], u[1:].reshape((len(v) - 1, 1)))      # ... of several arrays of different shapes
        else:
            f = u.norm(2) if meth else rso.norm(u)
    elif t == 'norminf':
        f = u.norm('inf') if meth else rso.norm(u, 'inf')
    elif t == 'pnorm':
        p = a['p']
        p = tuple(p) if isinstance(p, list) else p
        f = u.pnorm(p) if meth else rso.pnorm(u, p)
    elif t == 'square':
        f = u.square() if meth else rso.square(u)
    elif t == 'sumsqr':
        f = u.sumsqr() if meth else rso.sumsqr(u)
    elif t == 'quad':
        Q = np.array(a['Q'], dtype=float)
        f = u.quad(Q) if meth else rso.quad(u, Q)
    elif t == 'power':
        if a.get('shape2'):
            u2 = u.reshape(tuple(a['shape2']))
            pp = np.array(a['p']).reshape(a['pshape'])
            qq = np.array(a['q']).reshape(a['pshape']) if isinstance(a['q'], list) else a['q']
            f = u2.power(pp, qq) if meth else rso.power(u2, pp, qq)
        elif isinstance(a['p'], list):
            f = u.power(np.array(a['p']), np.array(a['q'])) if meth else rso.power(u, np.array(a['p']), np.array(a['q']))
        else:
            f = u.power(a['p'], a['q']) if meth else rso.power(u, a['p'], a['q'])
    elif t == 'gmean':
        f = u.gmean(a['beta']) if meth else rso.gmean(u, a['beta'])
    elif t == 'exp':
        f = u.exp() if meth else rso.exp(u)
    elif t == 'log':
        f = u.log() if meth else rso.log(u)
    elif t == 'softplus':
        f = u.softplus() if meth else rso.softplus(u)
    elif t == 'entropy':
        f = u.entropy() if meth else rso.entropy(u)
    elif t in ('sumexp', 'sumlog'):
        g = (u.exp() if meth else rso.exp(u)) if t == 'sumexp' else (u.log() if meth else rso.log(u))
        form = a.get('spell', 0) // 2 % 3       # the same sum written as sum(), sum(axis=0) and sum(axis=-1)
        f = g.sum() if form == 0 else g.sum(axis=0) if form == 1 else g.sum(axis=-1)
    elif t == 'maxof':
        f = rso.maxof(*[u[i] for i in range(len(a['M']))]) if meth else rso.maxof([u[i] for i in range(len(a['M']))])
    elif t == 'minof':
        f = rso.minof(*[u[i] for i in range(len(a['M']))])
    elif t in ('pexp', 'plog'):
        s = np.array(a['sM'], dtype=float)[0] @ x + float(a['sv'][0])
        if t == 'pexp':
            f = u.pexp(s) if meth else rso.pexp(u, s)
        else:
            f = u.plog(s) if meth else rso.plog(u, s)
    else:
        raise ValueError(t)
    return f


def _scal(a, key, idx_scalar):
    val = np.array(a[key], dtype=float)
    return val[0] if idx_scalar else val


def atom_constraint(a, x):
    """RSOME constraint for the atom use, spelled according to a['spell']"""
    scalar = ATOMS[a['atom']][1] == 'scalar'
    f = _atom_expr(a, x)
    kap = a['kappa']
    sp = a.get('spell', 0)
    if kap != 1.0:
        f = kap * f if sp % 3 else f * kap
    elif sp == 4:
        f = -(-f)
    o = np.array(a['o'], dtype=float)
    r = np.array(a['r'], dtype=float)
    o0 = np.array(a['o0'], dtype=float)
    r0 = np.array(a['r0'], dtype=float)
    if scalar:
        o, r, o0, r0 = o[0], r[0], float(o0[0]), float(r0[0])
    sh2 = tuple(a['shape2']) if a.get('shape2') else None

    def R(e):       # element-wise atoms on a 2-D argument: the affine sides take the same 2-D shape
        return e.reshape(sh2) if sh2 is not None and hasattr(e, 'reshape') else e
    has_o = bool(np.any(o)) or bool(np.any(o0))
    cvx = atom_curv(a) == 'cvx'
    if has_o and sp in (0, 1, 4):
        lhs = f + R(o @ x + o0)
        rhs = R(r @ x + r0)
    elif has_o and sp in (2,):
        lhs = R(o @ x + o0) + f
        rhs = R(r @ x + r0)
    else:
        lhs = f
        rhs = R((r - o) @ x + (r0 - o0))
    if not np.any(r - o if lhs is f else r):
        rhs_const = (r0 - o0) if lhs is f else r0
        if sp in (0, 3):
            rhs = rhs_const if scalar else R(np.array(rhs_const))
    if cvx:
        return (lhs <= rhs) if sp != 5 else (rhs >= lhs)
    return (lhs >= rhs) if sp != 5 else (rhs <= lhs)


def build(case, front=None):
    """returns (model, x_pieces) where x_pieces is a list of (var, start, size)"""
    from rsome import ro, dro
    front = front or case['front']
    m = ro.Model() if front == 'ro' else dro.Model()
    n = case['n']
    vt = case['vtypes']
    pieces = []
    if case.get('decl', 'one') == 'one' and len(set(vt)) == 1:
        pieces.append((m.dvar(n, vt[0]), 0, n))
    elif case.get('decl', 'one') == 'one':
        pieces.append((m.dvar(n, vt), 0, n))
    else:
        j = 0
        while j < n:
            k = j
            while k < n and vt[k] == vt[j]:
                k += 1
            pieces.append((m.dvar(k - j, vt[j]), j, k - j))
            j = k
    import rsome as rso
    if len(pieces) == 1:
        x = pieces[0][0]
    else:
        x = rso.concat([p[0] for p in pieces])
    return m, x, pieces


def declare(case, m, x, pieces):
    """state bounds, linear rows, atoms, cones and the objective"""
    n = case['n']
    if case.get('obj_first'):
        declare_objective(case, m, x)
    lo = np.array([(-np.inf if b[1] is None else b[1]) for b in case['bounds']])
    hi = np.array([(np.inf if b[2] is None else b[2]) for b in case['bounds']])
    bs = case.get('bound_style', 'array')
    handles = {'bounds': [], 'lin': [], 'cert': []}

    def loose_bounds():
        # redundant, looser bound objects on the same variables (the tighter declaration must keep winning)
        for (var, start, size) in pieces:
            l, h = lo[start:start + size] - 1.5, hi[start:start + size] + 0.5
            if np.all(np.isfinite(l)):
                m.st(var >= l)
            if np.all(np.isfinite(h)):
                m.st(var <= h)
            if size > 1 and np.isfinite(l[0]):
                m.st(var[0] >= float(l[0]) - 1.0)
    if case.get('loose_bounds') == 2:
        loose_bounds()

    def unit(j):
        e = np.zeros(n)
        e[j] = 1.0
        return e
    if bs == 'infnorm' and np.all(np.isfinite(lo)) and np.all(np.isfinite(hi)):
        import rsome as rso
        ctr, rad = (lo + hi) / 2, (hi - lo) / 2
        grp = {}
        for j in range(n):
            grp.setdefault(float(rad[j]), []).append(j)
        for r, js in grp.items():       # one infinity-norm ball per radius
            sel = np.zeros((len(js), n))
            for k, j in enumerate(js):
                sel[k, j] = 1.0
            m.st(rso.norm(sel @ x - ctr[js], 'inf') <= r)
    elif bs == 'rows' or bs == 'infnorm':
        for j in range(n):
            if np.isfinite(lo[j]):
                handles['cert'].append({'kind': 'le', 'G': -unit(j)[None, :], 'h': np.array([-lo[j]]), 'c': m.st(unit(j) @ x >= lo[j])})
            if np.isfinite(hi[j]):
                handles['cert'].append({'kind': 'le', 'G': unit(j)[None, :], 'h': np.array([hi[j]]), 'c': m.st(unit(j) @ x <= hi[j])})
    else:
        for (var, start, size) in pieces:
            l, h = lo[start:start + size], hi[start:start + size]
            # arrays with infinite entries are not handed to RSOME (the dro front end turns them into rows with an
            # infinite right-hand side, which the solvers reject loudly): fall back to entry-wise declarations
            if bs == 'array' and (np.all(np.isfinite(l)) or not np.any(np.isfinite(l))) and \
                    (np.all(np.isfinite(h)) or not np.any(np.isfinite(h))):
                if np.any(np.isfinite(l)):
                    handles['cert'].append({'kind': 'lb', 'idx': list(range(start, start + size)), 'h': l, 'c': m.st(var >= l)})
                if np.any(np.isfinite(h)):
                    handles['cert'].append({'kind': 'ub', 'idx': list(range(start, start + size)), 'h': h, 'c': m.st(var <= h)})
            elif bs == 'slice' and size > 1:
                # scalar bounds on index lists in non-ascending order: x[[2,0,1]] >= v, x[::-1] <= w
                for (arr, kind_) in ((l, 'lb'), (h, 'ub')):
                    for v in sorted(set(float(t) for t in arr if np.isfinite(t))):
                        js = [j for j in range(size) if arr[j] == v][::-1]
                        if len(js) > 2:
                            js = js[1:] + js[:1]
                        sel = var[js] if len(js) < size else var[::-1]
                        if len(js) == size:
                            js = list(range(size))[::-1]
                        cobj = m.st(sel >= v) if kind_ == 'lb' else m.st(sel <= v)
                        handles['cert'].append({'kind': kind_, 'idx': [start + j for j in js], 'h': np.array([v] * len(js)), 'c': cobj})
            else:
                for j in range(size):
                    if np.isfinite(l[j]):
                        handles['cert'].append({'kind': 'lb', 'idx': [start + j], 'h': np.array([l[j]]), 'c': m.st(var[j] >= float(l[j]))})
                    if np.isfinite(h[j]):
                        handles['cert'].append({'kind': 'ub', 'idx': [start + j], 'h': np.array([h[j]]), 'c': m.st(var[j] <= float(h[j]))})
    if case.get('loose_bounds') == 1:
        loose_bounds()
    for con in case['lin']:
        A, b = np.array(con['A'], dtype=float), np.array(con['b'], dtype=float)
        sty = con.get('style', 0)
        if sty == 0:
            e = {'le': A @ x <= b, 'ge': A @ x >= b, 'eq': A @ x == b}[con['sense']]
        elif sty == 1:
            e = {'le': b >= A @ x, 'ge': b <= A @ x, 'eq': A @ x - b == 0}[con['sense']]
        elif sty == 2:
            e = {'le': -(A @ x) >= -b, 'ge': -(A @ x) <= -b, 'eq': b - A @ x == 0}[con['sense']]
        else:
            e = {'le': A @ x - b <= 0, 'ge': 0 <= A @ x - b, 'eq': 2 * (A @ x) == 2 * b}[con['sense']]
        cobj = m.st(e)
        handles['lin'].append(cobj)
        # orientation of the row as written (>= read as <= of its negation; == as written)
        if con['sense'] == 'le':
            G, h = A, b
        elif con['sense'] == 'ge':
            G, h = -A, -b
        else:
            G, h = {0: (A, b), 1: (A, b), 2: (-A, -b), 3: (2 * A, 2 * b)}[sty]
        handles['cert'].append({'kind': 'eq' if con['sense'] == 'eq' else 'le', 'G': G, 'h': h, 'c': cobj})
    for a in case['atoms']:
        m.st(atom_constraint(a, x))
    for c in case.get('cones', []):
        m.st(cone_constraint(c, x))
    if not case.get('obj_first'):
        declare_objective(case, m, x)
    return handles


def declare_objective(case, m, x):
    o = case['obj']
    c = np.array(o['c'], dtype=float)
    e = c @ x + o['c0']
    if o.get('atom'):
        a = o['atom']
        f = _atom_expr(a, x)
        if a['kappa'] != 1.0:
            f = a['kappa'] * f
        if ATOMS[a['atom']][1] == 'elem' and len(a['M']) > 1 and a['atom'] in ('exp', 'log'):
            f = f.sum()
        e = f + e if np.any(c) or o['c0'] else f
    if case.get('flip_obj'):          # min f written as max -f (and vice versa): model.get() then returns -f
        (m.max if o['sense'] == 'min' else m.min)(-e)
    else:
        (m.min if o['sense'] == 'min' else m.max)(e)


def cone_constraint(c, x):
    import rsome as rso
    t = c['t']
    if t == 'rsocone':
        u = np.array(c['M']) @ x + np.array(c['v'])
        y = np.array(c['y']) @ x + c['y0']
        z = np.array(c['z']) @ x + c['z0']
        return rso.rsocone(u, y, z)
    if t == 'expcone':
        y = np.array(c['y']) @ x + c['y0']
        xx = np.array(c['x']) @ x + c['x0']
        z = np.array(c['z']) @ x + c['z0']
        return rso.expcone(y, xx, z)
    if t == 'kldiv':
        p = np.array(c['M']) @ x + np.array(c['v'])
        return rso.kldiv(p, np.array(c['q']), c['r'])
    raise ValueError(t)


def get_x(case, pieces):
    out = np.zeros(case['n'])
    for (var, start, size) in pieces:
        out[start:start + size] = np.array(var.get(), dtype=float).reshape(size)
    return out


def solver_for(case, which='auto'):
    """(solver module or None, kind) for the model's cone layer and variable types"""
    from rsome import eco_solver, grb_solver, ort_solver
    layer = model_layer(case)
    if layer == 'exp':
        return eco_solver, 'exp'
    if layer == 'soc':
        if which == 'grb':
            return grb_solver, 'soc'
        return eco_solver, 'soc'
    if which == 'grb':
        return grb_solver, 'lp'
    if which == 'ort':
        return ort_solver, 'lp'
    if which == 'eco':
        return eco_solver, 'lp'
    return None, 'lp'


def solve_model(m, solver):
    with quiet():
        m.solve(solver, display=False)
    sol = m.solution
    if sol is None or sol.x is None or np.isnan(sol.objval):
        return None
    if 'lose' in str(sol.status):      # ECOS 'Close to optimal' (reduced accuracy) is treated as unsolved
        return None
    return m.get()
