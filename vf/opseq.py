"""Free-form API histories over ro models (used by C09, kind 'opseq').

A case is a *declared model* plus a *schedule*.  The declared model has several decision arrays (one of them the
slack t >= 0 that keeps every model feasible), several random arrays, several decision-rule arrays with entry-wise
dependence declarations, several uncertainty sets (each a product of full-dimensional pieces over the random arrays it
covers; a random array a set does not cover is unrestricted in that set, so the decision-rule slopes on it must cancel
in a constraint that uses the set), robust <=, >=, == rows and a min / max / minmax / maxmin objective.

The schedule is a random linear extension of the dependency order of the single API calls (dvar, rvar, ldr, every
adapt, construction of the set's constraint objects, construction of every constraint object incl. forall, st, the
objective) with formulation calls (solve with a drawn interface, do_math(), do_math(primal=False), solve twice)
squeezed in at drawn positions after the objective.  It is generated state-machine style: at every step the next
call is drawn among the calls whose preconditions hold in the symbolic state.

Oracle after every formulation call: the optimum of the model declared *so far*, computed by cutting planes on the
semi-infinite LP with closed-form support functions (nothing of RSOME is involved), and - for triage only - the same
calls replayed in canonical order on a fresh RSOME model.
"""
import numpy as np
from hypothesis import strategies as st

from vf.quiet import quiet

COEF = [-2.0, -1.0, 0.0, 0.0, 1.0, 2.0]


def _vec(draw, n, pool=COEF):
    return [draw(st.sampled_from(pool)) for _ in range(n)]


# ----------------------------------------------------------------------------- generation
@st.composite
def declared_model(draw):
    ndv = draw(st.integers(1, 2))                      # decision arrays besides the slack t
    dv = [{'n': 1, 'lo': [0.0], 'hi': [None]}]         # dv[0] is t
    for _ in range(ndv):
        n = draw(st.integers(1, 2))
        lo = [float(draw(st.integers(-2, 0))) for _ in range(n)]
        hi = [l + float(draw(st.integers(1, 3))) for l in lo]
        dv.append({'n': n, 'lo': lo, 'hi': hi})
    nrv = draw(st.integers(1, 3))
    rv = [{'n': draw(st.integers(1, 2))} for _ in range(nrv)]
    nld = draw(st.integers(0, 2))
    ld = []
    for _ in range(nld):
        n = draw(st.integers(1, 2))
        deps = []
        whole = draw(st.integers(0, 3))
        for e in range(n):
            for j in range(nrv):
                for c in range(rv[j]['n']):
                    if draw(st.integers(0, 2)) > 0:
                        deps.append([e, j, c])
        # how the dependence is declared: entry by entry, or (when complete on a random array) array-wise
        ld.append({'n': n, 'deps': deps, 'whole': whole == 0})
    nset = draw(st.integers(1, 3))
    sets = []
    for s in range(nset):
        cover = [j for j in range(nrv) if draw(st.integers(0, 3)) > 0]
        if s == 0:
            cover = list(range(nrv)) if draw(st.booleans()) else (cover or [0])
        if s > 0 and nld and draw(st.integers(0, 5)) == 0:
            cover = []
        elif not cover:
            cover = [draw(st.integers(0, nrv - 1))]
        # (an empty cover is the set written forall() without arguments: every random array is unrestricted)
        pieces = []
        for j in cover:
            n = rv[j]['n']
            t = draw(st.sampled_from(['box', 'box', 'abs', 'linf', 'l1', 'l2']))
            c = [float(draw(st.integers(-1, 1))) for _ in range(n)]
            if t == 'box':
                lo = [ci - draw(st.sampled_from([0.5, 1.0, 2.0])) for ci in c]
                hi = [ci + draw(st.sampled_from([0.5, 1.0, 2.0])) for ci in c]
                if draw(st.integers(0, 3)) == 0:            # a bound of exactly zero
                    k = draw(st.integers(0, n - 1))
                    if draw(st.booleans()):
                        lo[k], hi[k] = 0.0, max(hi[k], 1.0)
                    else:
                        hi[k], lo[k] = 0.0, min(lo[k], -1.0)
                pieces.append({'rv': j, 't': 'box', 'lo': lo, 'hi': hi})
            else:
                pieces.append({'rv': j, 't': t, 'c': c, 'r': draw(st.sampled_from([0.5, 1.0, 1.5]))})
        sets.append({'pieces': pieces, 'objects': draw(st.sampled_from(['once', 'fresh']))})
    kind = draw(st.sampled_from(['min', 'max', 'minmax', 'maxmin', 'minmax']))
    cover0 = [p['rv'] for p in sets[0]['pieces']]
    obj = {'kind': kind, 'w': draw(st.sampled_from([1.0, 2.0, 0.5])),
           'd': [[0.0]] + [_vec(draw, d['n']) for d in dv[1:]], 'f': None, 'F': None, 'f0': float(draw(st.integers(-1, 1)))}
    if kind in ('minmax', 'maxmin'):
        obj['f'] = {str(j): _vec(draw, rv[j]['n']) for j in cover0 if draw(st.booleans())}
        if draw(st.integers(0, 2)) == 0:
            i = draw(st.integers(1, ndv))
            j = draw(st.sampled_from(cover0))
            obj['F'] = {'dv': i, 'rv': j, 'M': [_vec(draw, rv[j]['n'], [-1.0, 0.0, 1.0]) for _ in range(dv[i]['n'])]}
    rows = []
    sign_of = {}
    eq_used = set()
    nrow = draw(st.integers(1, 5))
    for r in range(nrow):
        if kind in ('minmax', 'maxmin') and draw(st.integers(0, 2)) == 0:
            sk = None
            cover = cover0
        else:
            sk = draw(st.integers(0, nset - 1))
            cover = [p['rv'] for p in sets[sk]['pieces']]
        sense = draw(st.sampled_from(['le', 'le', 'ge', 'eq']))
        if sense == 'eq':
            # y_k[e] == g.x + h.z + c0 with h supported on the declared dependence of that entry (always solvable)
            cands = [(k, e) for k in range(nld) for e in range(ld[k]['n']) if (k, e) not in eq_used]
            if not cands:
                sense = 'le'
            else:
                k, e = draw(st.sampled_from(cands))
                eq_used.add((k, e))
                i = draw(st.integers(1, ndv))
                h = {}
                for (e2, j, c) in ld[k]['deps']:
                    if e2 == e and j in cover and draw(st.booleans()):
                        h.setdefault(str(j), [0.0] * rv[j]['n'])[c] = draw(st.sampled_from([-1.0, 1.0, 2.0]))
                rows.append({'sense': 'eq', 'set': sk, 'ld': k, 'entry': e, 'dv': i, 'g': _vec(draw, dv[i]['n']), 'h': h,
                             'c0': float(draw(st.integers(-1, 1))), 'defer': [j for j in sorted(h) if draw(st.booleans())]})
                continue
        a = [[0.0]] + [(_vec(draw, d['n']) if draw(st.booleans()) else [0.0] * d['n']) for d in dv[1:]]
        b = []
        for k in range(nld):
            if draw(st.integers(0, 2)) > 0:
                sg = sign_of.get(k, draw(st.sampled_from([-1.0, 1.0])))
                sign_of[k] = -sg                     # the next row using this rule pulls the other way
                bk = [0.0] * ld[k]['n']
                for e in range(ld[k]['n']):
                    if draw(st.integers(0, 3)) > 0:
                        bk[e] = sg * draw(st.sampled_from([1.0, 1.0, 2.0]))
                b.append(bk)
            else:
                b.append([0.0] * ld[k]['n'])
        c = {str(j): _vec(draw, rv[j]['n']) for j in cover if draw(st.integers(0, 2)) > 0}
        bil = None
        if draw(st.integers(0, 3)) == 0 or not cover:
            # under an empty set the random array of the product is unrestricted: the product's coefficient M'x has to vanish
            i = draw(st.integers(1, ndv))
            j = draw(st.sampled_from(cover or list(range(nrv))))
            bil = {'dv': i, 'rv': j, 'M': [_vec(draw, rv[j]['n'], [-1.0, 0.0, 1.0]) for _ in range(dv[i]['n'])]}
        # random terms that are added to the stored expression object only when the constraint is written (a random array
        # may be declared in between)
        rows.append({'sense': sense, 'set': sk, 'a': a, 'b': b, 'c': c, 'bil': bil, 'c0': float(draw(st.integers(-3, 2))),
                     'spell': draw(st.integers(0, 2)), 'defer': [j for j in sorted(c) if draw(st.booleans())]})
    return {'dv': dv, 'rv': rv, 'ld': ld, 'sets': sets, 'obj': obj, 'rows': rows}


def row_uses(model, r):
    """(decision arrays, random arrays, rule arrays) a row's expression touches"""
    row = model['rows'][r]
    if row['sense'] == 'eq':
        return {row['dv']}, {int(j) for j in row['h']}, {row['ld']}
    dvs = {0} | {i for i, a in enumerate(row['a']) if any(a)}
    rvs = {int(j) for j, c in row['c'].items()}
    if row['bil']:
        dvs.add(row['bil']['dv'])
        rvs.add(row['bil']['rv'])
    lds = {k for k, b in enumerate(row['b']) if any(b)}
    return dvs, rvs, lds


def adapt_calls(model, k):
    """the adapt() calls that declare rule k's dependence"""
    l = model['ld'][k]
    calls = []
    deps = {tuple(d) for d in l['deps']}
    done = set()
    if l['whole']:
        for j in range(len(model['rv'])):
            full = all((e, j, c) in deps for e in range(l['n']) for c in range(model['rv'][j]['n']))
            if full:
                calls.append(['adapt', k, None, j, None])
                done |= {(e, j, c) for e in range(l['n']) for c in range(model['rv'][j]['n'])}
    for d in l['deps']:
        if tuple(d) not in done:
            calls.append(['adapt', k, d[0], d[1], d[2]])
    return calls


@st.composite
def opseq_case(draw):
    model = draw(declared_model())
    nrow = len(model['rows'])
    ops = []
    for i in range(len(model['dv'])):
        ops.append(['dvar', i])
    for j in range(len(model['rv'])):
        ops.append(['rvar', j])
    for k in range(len(model['ld'])):
        ops.append(['ldr', k])
        ops.extend(adapt_calls(model, k))
    for s in range(len(model['sets'])):
        if model['sets'][s]['objects'] == 'once':
            ops.append(['set', s])
    ops.append(['obj'])
    for r in range(nrow):
        ops.append(['expr', r])
        ops.append(['con', r])
        ops.append(['st', r])
    canonical = [list(o) for o in ops]

    def ready(o, done):
        t = o[0]
        has = lambda x: tuple(x) in done
        if t in ('dvar', 'rvar', 'ldr'):
            return True
        if t == 'adapt':
            # after the rule and the random array exist, before the rule is used anywhere
            if not (has(['ldr', o[1]]) and has(['rvar', o[3]])):
                return False
            return True
        if t == 'set':
            return all(has(['rvar', p['rv']]) for p in model['sets'][o[1]]['pieces'])
        if t == 'obj':
            ob = model['obj']
            need = [['dvar', 0]] + [['dvar', i] for i, d in enumerate(ob['d']) if any(d)]
            if ob['kind'] in ('minmax', 'maxmin'):
                need += [['rvar', p['rv']] for p in model['sets'][0]['pieces']]
                if model['sets'][0]['objects'] == 'once':
                    need.append(['set', 0])
                if ob['F']:
                    need.append(['dvar', ob['F']['dv']])
            return all(has(x) for x in need)
        if t == 'expr':
            r = o[1]
            dvs, rvs, lds = row_uses(model, r)
            later = {int(j) for j in model['rows'][r].get('defer', [])}
            bil = model['rows'][r].get('bil')
            if bil:
                later.discard(bil['rv'])
            need = [['dvar', i] for i in dvs] + [['rvar', j] for j in rvs if j not in later] + [['ldr', k] for k in lds]
            for k in lds:
                need += adapt_calls(model, k)
            return all(has(x) for x in need)
        if t == 'con':
            r = o[1]
            dvs, rvs, lds = row_uses(model, r)
            need = [['expr', r]] + [['rvar', j] for j in rvs]
            sk = model['rows'][r]['set']
            if sk is not None:
                need += [['rvar', p['rv']] for p in model['sets'][sk]['pieces']]
                if model['sets'][sk]['objects'] == 'once':
                    need.append(['set', sk])
            else:
                # the default set must exist as objects before a set-free row can be *formulated*; the row itself may
                # be created before minmax() is called
                need += [['rvar', j] for j in rvs]
            return all(has(x) for x in need)
        if t == 'st':
            return has(['con', o[1]])
        return True
    pending = [list(o) for o in ops]
    done = set()
    sched = []
    nform = draw(st.integers(1, 4))
    forms_left = nform
    while pending:
        av = [o for o in pending if ready(o, done)]
        # a formulation call may come as soon as the objective exists
        if ('obj',) in done and forms_left > 1 and draw(st.integers(0, 5)) == 0:
            sched.append(['form', draw(st.sampled_from(['solve', 'solve', 'primal', 'dual', 'solve+solve', 'dual+solve'])),
                          draw(st.integers(0, 2))])
            forms_left -= 1
            continue
        o = av[draw(st.integers(0, len(av) - 1))]
        pending.remove(o)
        done.add(tuple(o))
        sched.append(o)
    sched.append(['form', 'solve', draw(st.integers(0, 2))])
    return {'kind': 'opseq', 'model': model, 'sched': sched, 'canonical': canonical + [['form', 'solve', 0]]}


# ----------------------------------------------------------------------------- live interpretation
def is_conic(model):
    return any(p['t'] == 'l2' for s in model['sets'] for p in s['pieces'])


def solver_of(model, which):
    from rsome import eco_solver, grb_solver, ort_solver
    if is_conic(model):
        # ECOS dies (segmentation fault) on the all-zero equality rows RSOME writes for a random array a set leaves
        # unrestricted: it is only used when every set covers every random array
        full = all(len(s['pieces']) == len(model['rv']) for s in model['sets'])
        return ((eco_solver if full else grb_solver), grb_solver, (eco_solver if full else grb_solver))[which], 'conic'
    return (None, ort_solver, grb_solver)[which], 'lp'


class Live:
    def __init__(self, model):
        from rsome import ro
        self.model = model
        self.m = ro.Model()
        self.dv, self.rv, self.ld = {}, {}, {}
        self.setobjs = {}
        self.cons = {}
        self.sted = []
        self.has_obj = False
        self.adapted = set()
        self.exprs = {}

    def set_objects(self, s):
        import rsome as rso
        out = []
        for p in self.model['sets'][s]['pieces']:
            z = self.rv[p['rv']]
            if p['t'] == 'box':
                out += [z >= np.array(p['lo']), z <= np.array(p['hi'])]
            elif p['t'] == 'abs':
                out.append(abs(z - np.array(p['c'])) <= p['r'])
            elif p['t'] == 'linf':
                out.append(rso.norm(z - np.array(p['c']), 'inf') <= p['r'])
            elif p['t'] == 'l1':
                out.append(rso.norm(z - np.array(p['c']), 1) <= p['r'])
            else:
                out.append(rso.norm(z - np.array(p['c'])) <= p['r'])
        return out

    def get_set(self, s):
        if self.model['sets'][s]['objects'] == 'once':
            return self.setobjs[s]
        return self.set_objects(s)

    def row_expr(self, row, part):
        """part 0: the stored expression object; part 1: the terms added when the constraint is written"""
        defer = set(row.get('defer', []))
        if row['sense'] == 'eq':
            if part == 0:
                e = self.ld[row['ld']][row['entry']] - np.array(row['g']) @ self.dv[row['dv']] - row['c0']
            else:
                e = self.exprs[id(row)]
            for j, h in row['h'].items():
                if (j in defer) == (part == 1):
                    e = e - np.array(h) @ self.rv[int(j)]
            return e
        if part == 1:
            e = self.exprs[id(row)]
            for j, c in row['c'].items():
                if any(c) and j in defer:
                    e = e + np.array(c) @ self.rv[int(j)]
            return e
        e = None
        for i, a in enumerate(row['a']):
            if any(a):
                term = np.array(a) @ self.dv[i]
                e = term if e is None else e + term
        for k, b in enumerate(row['b']):
            if any(b):
                term = np.array(b) @ self.ld[k] if row['spell'] != 1 else (np.array(b) * self.ld[k]).sum()
                e = term if e is None else e + term
        for j, c in row['c'].items():
            if any(c) and j not in defer:
                term = np.array(c) @ self.rv[int(j)]
                e = term if e is None else e + term
        if row['bil']:
            M = np.array(row['bil']['M'])
            x, z = self.dv[row['bil']['dv']], self.rv[row['bil']['rv']]
            term = x @ (M @ z) if row['spell'] == 0 else (M @ z) @ x if row['spell'] == 1 else (x @ M) @ z
            e = term if e is None else e + term
        t = self.dv[0]
        e = row['c0'] - t[0] if e is None else e + row['c0'] - t[0]
        return e

    def do(self, o):
        m, model = self.m, self.model
        t = o[0]
        if t == 'dvar':
            d = model['dv'][o[1]]
            x = m.dvar(d['n'])
            self.dv[o[1]] = x
            m.st(x >= np.array(d['lo']))
            if d['hi'][0] is not None:
                m.st(x <= np.array(d['hi']))
        elif t == 'rvar':
            self.rv[o[1]] = m.rvar(model['rv'][o[1]]['n'])
        elif t == 'ldr':
            self.ld[o[1]] = m.ldr(model['ld'][o[1]]['n'])
        elif t == 'adapt':
            _, k, e, j, c = o
            if e is None:
                self.ld[k].adapt(self.rv[j])
                self.adapted |= {(e2, k, j, c2) for e2 in range(model['ld'][k]['n']) for c2 in range(model['rv'][j]['n'])}
            else:
                self.ld[k][e].adapt(self.rv[j][c])
                self.adapted.add((e, k, j, c))
        elif t == 'set':
            self.setobjs[o[1]] = self.set_objects(o[1])
        elif t == 'obj':
            ob = model['obj']
            e = ob['w'] * self.dv[0][0] + ob['f0']
            for i, d in enumerate(ob['d']):
                if any(d):
                    e = e + np.array(d) @ self.dv[i]
            if ob['kind'] in ('max', 'maxmin'):
                e = -e
            if ob['f']:
                for j, f in ob['f'].items():
                    if any(f):
                        e = e + np.array(f) @ self.rv[int(j)]
            if ob['F']:
                e = e + self.dv[ob['F']['dv']] @ (np.array(ob['F']['M']) @ self.rv[ob['F']['rv']])
            if ob['kind'] == 'min':
                m.min(e)
            elif ob['kind'] == 'max':
                m.max(e)
            elif ob['kind'] == 'minmax':
                m.minmax(e, self.get_set(0))
            else:
                m.maxmin(e, self.get_set(0))
            self.has_obj = True
        elif t == 'expr':
            row = model['rows'][o[1]]
            self.exprs[id(row)] = self.row_expr(row, 0)
        elif t == 'con':
            row = model['rows'][o[1]]
            e = self.row_expr(row, 1)
            c = (e == 0) if row['sense'] == 'eq' else (e <= 0) if row['sense'] == 'le' else (-e >= 0)
            if row['set'] is not None and hasattr(c, 'forall'):     # rows without random terms are plain constraints
                c = c.forall(self.get_set(row['set']))
            self.cons[o[1]] = c
        elif t == 'st':
            m.st(self.cons[o[1]])
            self.sted.append(o[1])


def run(model, sched):
    """execute the schedule; returns a list of records, one per formulation call"""
    live = Live(model)
    recs = []
    for pos, o in enumerate(sched):
        if o[0] != 'form':
            live.do(o)
            continue
        solver, kind = solver_of(model, o[2])
        rec = {'pos': pos, 'rows': list(live.sted), 'value': None, 'dual': None, 'status': None, 'first': None, 'act': o[1],
               'declared': {'dv': sorted(live.dv), 'rv': sorted(live.rv), 'ld': sorted(live.ld)}}
        for act in o[1].split('+'):
            with quiet():
                if act == 'primal':
                    live.m.do_math()
                elif act == 'dual':
                    d = live.m.do_math(primal=False)
                    from rsome.lp import def_sol
                    sd = def_sol(d, display=False) if solver is None else solver.solve(d, display=False)
                    if sd is not None and sd.x is not None and not np.isnan(sd.objval) and 'lose' not in str(sd.status):
                        rec['dual'] = float(sd.objval) * live.m.sign
                else:
                    live.m.solve(solver, display=False)
                    sol = live.m.solution
                    ok = sol is not None and sol.x is not None and not np.isnan(sol.objval) and 'lose' not in str(sol.status)
                    v = live.m.get() if ok else None
                    if rec['value'] is not None and rec['first'] is None:
                        rec['first'] = rec['value']
                    rec['value'] = v
                    rec['status'] = getattr(sol, 'status', None)
                    if ok:
                        rec['nan'] = nan_patterns(live)
        recs.append(rec)
    return recs


def nan_patterns(live):
    """y.get(z) must be NaN exactly where no dependence was declared (for every rule and random array declared so far)"""
    bad = []
    used = set()
    for r in live.sted:
        used |= row_uses(live.model, r)[2]
    for k, y in live.ld.items():
        if k not in used:          # a rule that is in no constraint has no coefficients in the solution (get() raises)
            continue
        for j, z in live.rv.items():
            try:
                co = np.asarray(y.get(z), dtype=float).reshape(live.model['ld'][k]['n'], live.model['rv'][j]['n'])
            except Exception as ex:        # noqa
                bad.append('y%d.get(z%d) raises %r' % (k, j, ex))
                continue
            for e in range(co.shape[0]):
                for c in range(co.shape[1]):
                    declared = (e, k, j, c) in live.adapted       # adapt() calls executed so far
                    if declared == bool(np.isnan(co[e, c])):
                        bad.append('y%d[%d] on z%d[%d]: declared=%s coefficient=%r' % (k, e, j, c, declared, co[e, c]))
    return bad


# ----------------------------------------------------------------------------- independent reference
def support_arg(piece, g):
    """maximiser of g.z over the piece (closed form)"""
    g = np.asarray(g, dtype=float)
    if piece['t'] == 'box':
        return np.where(g > 0, piece['hi'], piece['lo']).astype(float)
    c = np.array(piece['c'], dtype=float)
    r = piece['r']
    if piece['t'] in ('abs', 'linf'):
        return c + r * np.sign(g)
    if piece['t'] == 'l1':
        z = c.copy()
        k = int(np.argmax(np.abs(g)))
        z[k] += r * (np.sign(g[k]) if g[k] != 0 else 1.0)
        return z
    nrm = np.linalg.norm(g)
    return c + (r * g / nrm if nrm > 0 else 0.0)


def centre(piece):
    if piece['t'] == 'box':
        return (np.array(piece['lo']) + np.array(piece['hi'])) / 2
    return np.array(piece['c'], dtype=float)


class Layout:
    """LP columns of the reference: decision arrays, rule intercepts and declared slopes, tau"""

    def __init__(self, model, declared):
        self.model = model
        self.dv_off, self.y0_off, self.slope = {}, {}, {}
        n = 0
        for i in declared['dv']:
            self.dv_off[i] = n
            n += model['dv'][i]['n']
        for k in declared['ld']:
            self.y0_off[k] = n
            n += model['ld'][k]['n']
            for (e, j, c) in model['ld'][k]['deps']:
                self.slope[(k, e, j, c)] = n
                n += 1
        self.tau = n
        self.n = n + 1
        self.rvs = list(declared['rv'])

    def row_parts(self, row, objective=False):
        """the row (<= 0 form) as  const(v) + sum_j G_j(v).z_j : returns (k0, kvec, {(j,c): (g0, gvec)})"""
        model = self.model
        k0, kv = 0.0, np.zeros(self.n)
        G = {(j, c): [0.0, np.zeros(self.n)] for j in self.rvs for c in range(model['rv'][j]['n'])}
        if objective:
            ob = row      # the user's expression e (maximised for max / maxmin)
            sg = -1.0 if ob['kind'] in ('max', 'maxmin') else 1.0
            kv[self.dv_off[0]] += sg * ob['w']
            k0 += sg * ob['f0']
            for i, d in enumerate(ob['d']):
                if any(d):
                    kv[self.dv_off[i]:self.dv_off[i] + len(d)] += sg * np.array(d)
            if ob['f']:
                for j, f in ob['f'].items():
                    for c, v in enumerate(f):
                        G[(int(j), c)][0] += v
            if ob['F']:
                M = np.array(ob['F']['M'])
                off = self.dv_off[ob['F']['dv']]
                for a in range(M.shape[0]):
                    for c in range(M.shape[1]):
                        G[(ob['F']['rv'], c)][1][off + a] += M[a, c]
            return k0, kv, G
        if row['sense'] == 'eq':
            k, e = row['ld'], row['entry']
            kv[self.y0_off[k] + e] += 1.0
            off = self.dv_off[row['dv']]
            kv[off:off + len(row['g'])] -= np.array(row['g'])
            k0 -= row['c0']
            for (e2, j, c) in model['ld'][k]['deps']:
                if e2 == e:
                    G[(j, c)][1][self.slope[(k, e, j, c)]] += 1.0
            for j, h in row['h'].items():
                for c, v in enumerate(h):
                    G[(int(j), c)][0] -= v
            return k0, kv, G
        kv[self.dv_off[0]] -= 1.0
        k0 += row['c0']
        for i, a in enumerate(row['a']):
            if any(a):
                kv[self.dv_off[i]:self.dv_off[i] + len(a)] += np.array(a)
        for k, b in enumerate(row['b']):
            for e, v in enumerate(b):
                if v:
                    kv[self.y0_off[k] + e] += v
                    for (e2, j, c) in model['ld'][k]['deps']:
                        if e2 == e:
                            G[(j, c)][1][self.slope[(k, e, j, c)]] += v
        for j, cc in row['c'].items():
            for c, v in enumerate(cc):
                G[(int(j), c)][0] += v
        if row['bil']:
            M = np.array(row['bil']['M'])
            off = self.dv_off[row['bil']['dv']]
            for a in range(M.shape[0]):
                for c in range(M.shape[1]):
                    G[(row['bil']['rv'], c)][1][off + a] += M[a, c]
        return k0, kv, G


def reference(model, rec, max_iter=400, tol=1e-8):
    """optimum (in the user's sense) of the model declared when the formulation call of `rec` was made"""
    from scipy.optimize import linprog
    declared = rec['declared']
    lay = Layout(model, declared)
    ob = model['obj']
    n = lay.n
    cost = np.zeros(n)
    robust_obj = ob['kind'] in ('minmax', 'maxmin')
    if robust_obj:
        cost[lay.tau] = 1.0
    A_eq, b_eq = [], []
    rows = []          # (k0, kv, G, pieces-by-rv)
    k0, kv, G = lay.row_parts(ob, objective=True)
    if ob['kind'] in ('max', 'maxmin'):        # maximise e  ==  -(minimise -e)
        k0, kv, G = -k0, -kv, {key: [-g0, -gv] for key, (g0, gv) in G.items()}
    if robust_obj:
        kv = kv.copy()
        kv[lay.tau] -= 1.0
        p0 = {p['rv']: p for p in model['sets'][0]['pieces']}
        rows.append((k0, kv, {key: g for key, g in G.items() if key[0] in p0}, p0))
    else:
        cost = kv.copy()
        obj_const = k0
    for r in rec['rows']:
        row = model['rows'][r]
        sk = row['set'] if row['set'] is not None else 0
        if row['set'] is None and not robust_obj:
            return None, 'set-free row without a default set'
        pieces = {p['rv']: p for p in model['sets'][sk]['pieces']}
        k0, kv, G = lay.row_parts(row)
        if row['sense'] == 'eq':
            A_eq.append(kv)
            b_eq.append(-k0)
            for key, (g0, gv) in G.items():
                if np.any(gv) or g0:
                    A_eq.append(gv)
                    b_eq.append(-g0)
            continue
        # random arrays the set does not restrict: the coefficient must vanish identically
        Gc = {}
        for key, (g0, gv) in G.items():
            if key[0] in pieces:
                Gc[key] = (g0, gv)
            elif np.any(gv) or g0:
                A_eq.append(gv)
                b_eq.append(-g0)
        rows.append((k0, kv, Gc, pieces))
    bounds = [(None, None)] * n
    for i in declared['dv']:
        d = model['dv'][i]
        for e in range(d['n']):
            bounds[lay.dv_off[i] + e] = (d['lo'][e], d['hi'][e])
    if not robust_obj:
        bounds[lay.tau] = (0.0, 0.0)

    def cut(rowt, zs):
        k0, kv, G, pieces = rowt
        a = kv.copy()
        b = -k0
        for (j, c), (g0, gv) in G.items():
            a = a + gv * zs[j][c]
            b -= g0 * zs[j][c]
        return a, b
    A_ub, b_ub = [], []
    for rowt in rows:
        a, b = cut(rowt, {j: centre(p) for j, p in rowt[3].items()})
        A_ub.append(a)
        b_ub.append(b)
    val = None
    for it in range(max_iter):
        res = linprog(cost, A_ub=np.array(A_ub) if A_ub else None, b_ub=np.array(b_ub) if A_ub else None,
                      A_eq=np.array(A_eq) if A_eq else None, b_eq=np.array(b_eq) if A_eq else None, bounds=bounds, method='highs')
        if res.status == 2:
            return None, 'infeasible'
        if res.status != 0:
            return None, 'lp status %d' % res.status
        v = res.x
        worst = 0.0
        for rowt in rows:
            k0, kv, G, pieces = rowt
            zs = {}
            for j, p in pieces.items():
                g = np.array([G[(j, c)][0] + G[(j, c)][1] @ v for c in range(model['rv'][j]['n'])])
                zs[j] = support_arg(p, g)
            a, b = cut(rowt, zs)
            viol = float(a @ v - b)
            if viol > tol:
                A_ub.append(a)
                b_ub.append(b)
                worst = max(worst, viol)
        if worst <= tol:
            val = float(res.fun) + (0.0 if robust_obj else obj_const)
            break
    if val is None:
        return None, 'no convergence'
    if ob['kind'] in ('max', 'maxmin'):
        val = -val
    return val, 'ok'
