"""Uncertainty-set families: IR, generation around an interior point, RSOME spelling,
membership predicate and *independent* maximisers (never through RSOME's duality code).

A set is a list of pieces over the random vector w = (z, u): z has dimension nz, u (lifted
auxiliary, only with a 'budget' piece) has dimension nz as well.  Every piece contains the
centre strictly (Slater), and at least one piece is bounded.
"""
import numpy as np
from hypothesis import strategies as st
from scipy.optimize import linprog, minimize, minimize_scalar

HALF = [0.5, 1.0, 1.5, 2.0]


# ----------------------------------------------------------------------------- generation
@st.composite
def set_ir(draw, nz, centre, families=None, allow_lift=True, max_pieces=3):
    """returns {'nz','nu','centre','pieces'}; centre is a list of floats (length nz)"""
    fams = families or ['box', 'box', 'l1', 'l2', 'linf', 'poly', 'eq', 'pn', 'kl', 'budget']
    c = list(centre)
    pieces = []
    npieces = draw(st.integers(1, max_pieces))
    nu = 0
    names = []
    for _ in range(npieces):
        f = draw(st.sampled_from(fams))
        if f == 'kl' and (nz < 2 or names):
            f = 'box'
        if f == 'budget' and (not allow_lift or names and any(n in ('kl',) for n in names)):
            f = 'l1'
        if f in names and f in ('kl', 'budget', 'eq', 'pn', 'l2'):
            f = 'box'
        names.append(f)
    if 'kl' in names:
        names = ['kl'] + [n for n in names if n in ('box', 'poly', 'l1', 'l2')][:1]
        k = draw(st.sampled_from([4, 8]))
        parts = [draw(st.integers(1, 3)) for _ in range(nz)]
        tot = sum(parts)
        c = [p / tot for p in parts]
    if 'budget' in names:
        c = [0.0] * nz
        nu = nz
    for f in names:
        if f == 'box':
            lo = [ci - draw(st.sampled_from(HALF)) for ci in c]
            hi = [ci + draw(st.sampled_from(HALF)) for ci in c]
            if draw(st.integers(0, 3)) == 0:
                # a bound of exactly 0 (RSOME treats columns with ub == 0 / lb == 0 as signed variables when it dualises a set)
                j = draw(st.integers(0, len(c) - 1))
                if c[j] <= 0 and lo[j] < 0:
                    hi[j] = 0.0
                elif c[j] > 0:
                    lo[j] = 0.0
            pieces.append({'t': 'box', 'lo': lo, 'hi': hi,
                           'style': draw(st.sampled_from(['bounds', 'rows', 'split'])),
                           # redundant looser bound objects declared after (1) or before (2) the real ones: the tighter must win
                           'dup': draw(st.sampled_from([0, 0, 0, 1, 2]))})
        elif f == 'linf':
            pieces.append({'t': 'linf', 'c': c, 'r': draw(st.sampled_from(HALF)),
                           'style': draw(st.sampled_from(['abs', 'inf']))})
        elif f == 'l1':
            pieces.append({'t': 'l1', 'c': c, 'r': draw(st.sampled_from([1.0, 1.5, 2.0, 3.0])),
                           'w': [draw(st.sampled_from([1.0, 1.0, 2.0, 0.5])) for _ in range(nz)]})
        elif f == 'l2':
            B = np.eye(nz)
            for i in range(nz):
                B[i, i] = draw(st.sampled_from([1.0, 1.0, 2.0, 0.5]))
                for j in range(i + 1, nz):
                    B[i, j] = draw(st.sampled_from([0.0, 0.0, 1.0, -1.0]))
            pieces.append({'t': 'l2', 'c': c, 'r': draw(st.sampled_from([1.0, 1.5, 2.0])), 'B': B.tolist(),
                           'style': draw(st.sampled_from(['norm', 'sumsqr', 'quad', 'norm']))})
        elif f == 'poly':
            k = draw(st.integers(1, 3))
            G, h = [], []
            for _r in range(k):
                row = [draw(st.integers(-2, 2)) for _ in range(nz)]
                if not any(row):
                    row[draw(st.integers(0, nz - 1))] = 1
                G.append([float(v) for v in row])
                h.append(float(np.dot(row, c)) + draw(st.sampled_from(HALF)))
            pieces.append({'t': 'poly', 'G': G, 'h': h, 'style': draw(st.sampled_from(['le', 'ge']))})
        elif f == 'eq':
            row = [draw(st.integers(-2, 2)) for _ in range(nz)]
            if not any(row):
                row[0] = 1
            if nz == 1:       # an equality on a 1-d vector pins it; keep but it makes the set a point
                pass
            pieces.append({'t': 'eq', 'E': [[float(v) for v in row]], 'e': [float(np.dot(row, c))]})
        elif f == 'pn':
            pieces.append({'t': 'pn', 'c': c, 'r': draw(st.sampled_from([1.0, 2.0])),
                           'p': draw(st.sampled_from([3, 4, [3, 2], [5, 3], 2.5]))})
        elif f == 'kl':
            pieces.append({'t': 'kl', 'phat': c, 'r': draw(st.sampled_from([0.05, 0.1, 0.3]))})
        elif f == 'budget':
            pieces.append({'t': 'budget', 'gamma': draw(st.sampled_from([1.0, 1.5, 2.0]))})
    bounded = any(p['t'] in ('box', 'linf', 'l1', 'l2', 'pn', 'kl', 'budget') for p in pieces)
    if not bounded:
        pieces.append({'t': 'box', 'lo': [ci - 2.0 for ci in c], 'hi': [ci + 2.0 for ci in c], 'style': 'bounds'})
    return {'nz': nz, 'nu': nu, 'centre': c, 'pieces': pieces}


def families_of(s):
    return sorted(set(p['t'] for p in s['pieces']))


def centre_w(s):
    c = np.array(s['centre'], dtype=float)
    if s['nu']:
        # u strictly between |z| = 0 and 1, with sum below gamma
        g = [p['gamma'] for p in s['pieces'] if p['t'] == 'budget'][0]
        u = np.full(s['nu'], min(0.5, 0.5 * g / s['nu']))
        return np.concatenate([c, u])
    return c


# ----------------------------------------------------------------------------- RSOME spelling
def rsome_constraints(s, z, u=None, skip_via_late=False):
    """list of RSOME constraints on the random variables (z, u) for set s"""
    import rsome as rso
    out = []
    nz = s['nz']
    for p in s['pieces']:
        t = p['t']
        if t == 'box':
            lo, hi = np.array(p['lo']), np.array(p['hi'])
            if p['style'] == 'bounds':
                loose = [z >= lo - 1.0, z <= hi + 0.5] if p.get('dup') else []
                out += (loose if p.get('dup') == 2 else []) + [z >= lo, z <= hi] + (loose if p.get('dup') == 1 else [])
            elif p['style'] == 'rows':
                out += [np.eye(nz) @ z <= hi, -np.eye(nz) @ z <= -lo]
            else:
                for i in range(nz):
                    out += [z[i] >= float(lo[i]), z[i] <= float(hi[i])]
        elif t == 'linf':
            c = np.array(p['c'])
            if p['style'] == 'abs':
                out.append(abs(z - c) <= p['r'])
            else:
                out.append(rso.norm(z - c, 'inf') <= p['r'])
        elif t == 'l1':
            c, w = np.array(p['c']), np.array(p['w'])
            out.append(rso.norm(w * (z - c), 1) <= p['r'])
        elif t == 'l2':
            c, B = np.array(p['c']), np.array(p['B'])
            if p['style'] == 'plainsel':      # a plain Euclidean ball over some of the components: norm(z[sel]) <= r
                sel = p['sel']
                zz = z[sel[0]:sel[-1] + 1] if sel == list(range(sel[0], sel[-1] + 1)) else z[sel]
                out.append(rso.norm(zz if not np.any(c[sel]) else zz - c[sel]) <= p['r'])
            elif p['style'] == 'norm':
                out.append(rso.norm(B @ (z - c), 2) <= p['r'])
            elif p['style'] == 'sumsqr':
                out.append(rso.sumsqr(B @ (z - c)) <= p['r'] ** 2)
            else:
                out.append(rso.quad(z - c, B.T @ B) <= p['r'] ** 2)
        elif t == 'poly' and p.get('via_late') and skip_via_late:
            pass        # stated by the model builder as a budget row through a random array declared later (see romodel.build)
        elif t == 'poly':
            G, h = np.array(p['G']), np.array(p['h'])
            if p['style'] == 'le':
                out.append(G @ z <= h)
            else:
                out.append(-h <= -(G @ z))
        elif t == 'eq':
            E, e = np.array(p['E']), np.array(p['e'])
            out.append(E @ z == e)
        elif t == 'pn':
            c = np.array(p['c'])
            deg = p['p']
            if isinstance(deg, list):
                out.append(rso.pnorm(z - c, (deg[0], deg[1])) <= p['r'])
            elif isinstance(deg, float):
                out.append(rso.pnorm(z - c, deg, 'exc') <= p['r'])
            else:
                out.append(rso.pnorm(z - c, deg) <= p['r'])
        elif t == 'kl':
            out += [z >= 0, z.sum() == 1, rso.kldiv(z, np.array(p['phat']), p['r'])]
        elif t == 'budget':
            out += [abs(z) <= u, u <= 1, u.sum() <= p['gamma']]
    return out


# ----------------------------------------------------------------------------- membership
def pn_degree(p):
    return p[0] / p[1] if isinstance(p, list) else float(p)


def violation(s, w):
    """max constraint violation of w=(z,u) (<=0 means member)"""
    nz = s['nz']
    z = np.asarray(w[:nz], dtype=float)
    u = np.asarray(w[nz:], dtype=float)
    v = -np.inf
    for p in s['pieces']:
        t = p['t']
        if t == 'box':
            v = max(v, np.max(np.array(p['lo']) - z), np.max(z - np.array(p['hi'])))
        elif t == 'linf':
            v = max(v, np.max(np.abs(z - np.array(p['c']))) - p['r'])
        elif t == 'l1':
            v = max(v, np.sum(np.array(p['w']) * np.abs(z - np.array(p['c']))) - p['r'])
        elif t == 'l2':
            v = max(v, np.linalg.norm(np.array(p['B']) @ (z - np.array(p['c']))) - p['r'])
        elif t == 'poly':
            v = max(v, np.max(np.array(p['G']) @ z - np.array(p['h'])))
        elif t == 'eq':
            v = max(v, np.max(np.abs(np.array(p['E']) @ z - np.array(p['e']))))
        elif t == 'pn':
            q = pn_degree(p['p'])
            v = max(v, np.sum(np.abs(z - np.array(p['c'])) ** q) ** (1 / q) - p['r'])
        elif t == 'kl':
            ph = np.array(p['phat'])
            v = max(v, np.max(-z), abs(z.sum() - 1))
            zz = np.maximum(z, 1e-300)
            kl = np.sum(np.where(z > 0, zz * np.log(zz / ph), 0.0))
            v = max(v, kl - p['r'])
        elif t == 'budget':
            v = max(v, np.max(np.abs(z) - u), np.max(u - 1), u.sum() - p['gamma'])
    return float(v)


def pull_in(s, w, eps=1e-9):
    """move w slightly toward the centre so that a boundary point is a member beyond rounding"""
    c = centre_w(s)
    return (1 - eps) * np.asarray(w, dtype=float) + eps * c


# ----------------------------------------------------------------------------- maximisers
def _lp_parts(s):
    """LP description over variables [z, u, aux...]: A_ub, b_ub, A_eq, b_eq, nvars; None if not LP-representable"""
    nz, nu = s['nz'], s['nu']
    n = nz + nu
    rows, rhs, erows, erhs = [], [], [], []
    naux = 0
    aux_specs = []
    for p in s['pieces']:
        if p['t'] == 'l1':
            aux_specs.append((n + naux, p))
            naux += nz
    N = n + naux

    def row(coefs):
        r = np.zeros(N)
        for i, v in coefs:
            r[i] += v
        return r
    for p in s['pieces']:
        t = p['t']
        if t == 'box':
            for i in range(nz):
                rows.append(row([(i, 1.0)])); rhs.append(p['hi'][i])
                rows.append(row([(i, -1.0)])); rhs.append(-p['lo'][i])
        elif t == 'linf':
            for i in range(nz):
                rows.append(row([(i, 1.0)])); rhs.append(p['c'][i] + p['r'])
                rows.append(row([(i, -1.0)])); rhs.append(-p['c'][i] + p['r'])
        elif t == 'poly':
            for g, h in zip(p['G'], p['h']):
                rows.append(row(list(enumerate(g)))); rhs.append(h)
        elif t == 'eq':
            for g, h in zip(p['E'], p['e']):
                erows.append(row(list(enumerate(g)))); erhs.append(h)
        elif t == 'budget':
            for i in range(nz):
                rows.append(row([(i, 1.0), (nz + i, -1.0)])); rhs.append(0.0)
                rows.append(row([(i, -1.0), (nz + i, -1.0)])); rhs.append(0.0)
                rows.append(row([(nz + i, 1.0)])); rhs.append(1.0)
            rows.append(row([(nz + i, 1.0) for i in range(nz)])); rhs.append(p['gamma'])
        elif t == 'l1':
            pass
        else:
            return None
    for start, p in aux_specs:
        for i in range(nz):
            wgt = p['w'][i]
            rows.append(row([(i, wgt), (start + i, -1.0)])); rhs.append(wgt * p['c'][i])
            rows.append(row([(i, -wgt), (start + i, -1.0)])); rhs.append(-wgt * p['c'][i])
        rows.append(row([(start + i, 1.0) for i in range(nz)])); rhs.append(p['r'])
    return (np.array(rows) if rows else np.zeros((0, N)), np.array(rhs),
            np.array(erows) if erows else None, np.array(erhs) if erows else None, N)


def maximise(s, g):
    """max g.w over the set.  Returns (value, w*, exact) ; w* verified member (pulled in) or None."""
    g = np.asarray(g, dtype=float)
    n = s['nz'] + s['nu']
    kinds = set(p['t'] for p in s['pieces'])
    if not np.any(np.abs(g) > 1e-12):
        c = centre_w(s)
        return float(g @ c), c, True
    if kinds <= {'box', 'linf', 'l1', 'poly', 'eq', 'budget'}:
        A, b, Ae, be, N = _lp_parts(s)
        cost = np.zeros(N)
        cost[:n] = -g
        res = linprog(cost, A_ub=A, b_ub=b, A_eq=Ae, b_eq=be, bounds=[(None, None)] * N, method='highs')
        if res.status != 0:
            return None, None, False
        w = res.x[:n]
        return float(g @ w), w, True
    if kinds <= {'box', 'linf', 'l1', 'poly', 'eq', 'budget', 'l2'}:
        return _max_ecos(s, g)
    if len(s['pieces']) == 1 and 'pn' in kinds:
        p = s['pieces'][0]
        q = pn_degree(p['p'])
        qs = q / (q - 1)
        gz = g[:s['nz']]
        nrm = np.sum(np.abs(gz) ** qs) ** (1 / qs)
        c = np.array(p['c'])
        if nrm == 0:
            return float(gz @ c), c, True
        zst = c + p['r'] * np.sign(gz) * (np.abs(gz) / nrm) ** (qs - 1)
        return float(gz @ c + p['r'] * nrm), zst, True
    if len(s['pieces']) == 1 and 'kl' in kinds:
        return _max_kl(s['pieces'][0], g)
    return _max_slsqp(s, g)


def _max_kl(p, g):
    """max g.z over {z in simplex, KL(z||phat) <= r}: the maximiser is z(a) ~ phat*exp(g/a) with KL(z(a)) = r
    (KL(z(a)) decreases in a), found by root bracketing on a scale-free g; the value is the primal value at
    a verified member, so it is never an over-estimate."""
    from scipy.optimize import brentq
    ph = np.array(p['phat'], dtype=float)
    r = p['r']
    g = np.asarray(g, dtype=float)[:len(ph)]
    spread = g.max() - g.min()
    if spread <= 0:
        return float(g @ ph), ph.copy(), True
    gh = (g - g.max()) / spread

    def z_of(a):
        w = ph * np.exp(gh / a)
        return w / w.sum()

    def kl(a):
        z = z_of(a)
        nz = z > 0
        return float(np.sum(z[nz] * np.log(z[nz] / ph[nz])))
    lo, hi = 2e-3, 1e7
    if kl(lo) <= r:
        z = z_of(lo)
    else:
        a = brentq(lambda t: kl(t) - r, lo, hi, xtol=1e-14, rtol=1e-13, maxiter=500)
        z = z_of(a * (1 + 1e-12))
    return float(g @ z), z, True


def _max_ecos(s, g):
    import ecos
    import scipy.sparse as sp
    from vf.quiet import quiet
    n = s['nz'] + s['nu']
    nz = s['nz']
    lp = dict(s)
    lp['pieces'] = [p for p in s['pieces'] if p['t'] != 'l2']
    A, b, Ae, be, N = _lp_parts(lp)
    Gs = [A] if A.shape[0] else []
    hs = [b] if A.shape[0] else []
    q = []
    for p in s['pieces']:
        if p['t'] != 'l2':
            continue
        B = np.array(p['B'])
        c = np.array(p['c'])
        k = B.shape[0]                       # B may select some of the components (k x nz)
        blk = np.zeros((k + 1, N))
        blk[1:, :nz] = -B
        hh = np.concatenate([[p['r']], -B @ c])
        Gs.append(blk)
        hs.append(hh)
        q.append(k + 1)
    G = sp.csc_matrix(np.vstack(Gs))
    h = np.concatenate(hs)
    cost = np.zeros(N)
    cost[:n] = -g
    dims = {'l': int(A.shape[0]), 'q': q, 'e': 0}
    kw = {}
    if Ae is not None:
        kw = {'A': sp.csc_matrix(Ae), 'b': be}
    with quiet():
        try:
            sol = ecos.solve(cost, G, h, dims, verbose=False, abstol=1e-10, reltol=1e-10, feastol=1e-10, **kw)
        except Exception:
            return None, None, False
    if sol['info']['exitFlag'] != 0:
        return None, None, False
    w = sol['x'][:n]
    return float(g @ w), w, True


def _max_slsqp(s, g):
    """witness finder only (exact=False): result is used after membership verification"""
    n = s['nz'] + s['nu']
    c = centre_w(s)
    best = (float(g @ c), c)
    cons = [{'type': 'ineq', 'fun': lambda w: -violation(s, w)}]
    for k in range(4):
        x0 = c + (0.01 * ((np.arange(n) * (k + 3)) % 5 - 2))
        try:
            res = minimize(lambda w: -float(g @ w), x0, constraints=cons, method='SLSQP',
                           options={'maxiter': 200, 'ftol': 1e-10})
        except Exception:
            continue
        w = res.x
        if violation(s, w) <= 1e-9 and g @ w > best[0]:
            best = (float(g @ w), w)
    return best[0], best[1], False


def sample_members(s, k, seed):
    """k members: centre + random directions scaled to stay inside (bisection on the membership predicate)"""
    rs = np.random.RandomState(seed)
    c = centre_w(s)
    n = len(c)
    out = [c]
    # equality pieces: project directions onto the null space
    E = [np.array(p['E']) for p in s['pieces'] if p['t'] == 'eq']
    if any(p['t'] == 'kl' for p in s['pieces']):
        E.append(np.ones((1, s['nz'])))
    P = np.eye(n)
    if E:
        M = np.zeros((sum(e.shape[0] for e in E), n))
        r0 = 0
        for e in E:
            M[r0:r0 + e.shape[0], :s['nz']] = e
            r0 += e.shape[0]
        P = np.eye(n) - np.linalg.pinv(M) @ M
    for _ in range(k):
        d = P @ rs.randn(n)
        if np.linalg.norm(d) < 1e-12:
            continue
        lo, hi = 0.0, 8.0
        for _it in range(40):
            mid = 0.5 * (lo + hi)
            if violation(s, c + mid * d) <= 0:
                lo = mid
            else:
                hi = mid
        out.append(c + lo * rs.choice([1.0, 1.0, 0.5, 0.9]) * d)
    return out
