"""Regenerates /verif/MANIFEST.json from the table below: python -m vf.manifest"""
import json
import os

ROOT = os.path.dirname(os.path.dirname(os.path.abspath(__file__)))

# id -> (technique, level text, level note, design ref)
CHECKS = {
    'C05': ('property-based differential testing: Hypothesis-generated typed expression trees vs NumPy on shadow arrays',
            'Generated-input search (Hypothesis, 16 shards) over shape-aware expression trees of 1-7 operators on '
            'dvar/rvar/ldr/slices/constants in ro and dro; every node is compared with NumPy (shape equality and values '
            'at two integer assignments), so a wrong selector matrix in any operator on any generated rank/broadcast '
            'pattern is reported with the innermost failing operator as bucket. Sparse right operands of + / -, decision rules read through permuting indices beside a declared random array, and operators that return None / NotImplemented are covered. Sampling, not proof.',
            'Trusts NumPy as the reference; values observed through Affine.linear/const and RoAffine.raffine/affine; '
            'array sizes capped at 192 entries (rank is not capped below 5); empty arrays not generated; RSOME raising '
            'where NumPy succeeds is allowed by the statement and only counted.',
            'DESIGN.md section 4 / C05'),
    'C01': ('property-based testing with an independent worst-case oracle: Hypothesis-generated ro models (feasible by construction), '
            'each robust row maximised over its set by LP / hand-built cone program / closed form and re-evaluated by NumPy',
            'Generated-input search over ro models (static + LDR with random masks, <=,>=,== robust rows with bilinear terms in 5 '
            'spellings, per-constraint sets, 10 set families and intersections, 4 objective kinds). For every solved model each '
            'robust row and the reported worst-case objective are tested at an independently computed worst-case member of the '
            'attached set (membership re-verified), plus sampled members. Detects any counterpart that protects against too small '
            'a set on a generated model; sampling, not proof.',
            'Trusts HiGHS/ECOS/SciPy as used by the oracle (witnesses are re-verified by direct arithmetic, so a wrong witness '
            'cannot raise an alarm); tolerance 1e-6/3e-5 relative; intersections with p-norm/KL pieces are attacked by SLSQP '
            'witnesses only; infeasible/failed solves are skipped.',
            'DESIGN.md section 4 / C01'),
    'C02': ('property-based differential testing against an independent reference solver: Kelley cutting planes on the '
            'semi-infinite LP (scipy HiGHS master, exact separation oracle) vs model.get()',
            'Generated-input search over ro models whose sets admit an exact independent maximiser; the reported optimum is '
            'compared with the optimum of the semi-infinite problem over (x, y0, Y restricted to the declared dependencies) solved '
            'without RSOME. Both directions are checked (unsafe and conservative). Products of plain unit balls are generated; a counterpart that ECOS and Gurobi both report infeasible while the reference has an optimum is a violation. Sampling, not proof.',
            'Reference = cutting planes with separation points verified as members; non-convergence / artificial bounds / cone '
            'solver failures are inconclusive; tolerance 1e-6 (LP) / 2e-4 (conic) relative.',
            'DESIGN.md section 4 / C02'),
    'C08': ('property-based testing with a strong-duality oracle: both programs returned by do_math(primal=True/False) are solved '
            'with the same solver interface and must sum to zero (weak duality reported separately)',
            'Generated-input search over deterministic LP/SOC/exp-cone models (8 bound patterns per variable incl. fixed at c!=0, '
            '<=,>=,== rows, norm/square/quad/p-norm/power/gmean/exp/log/entropy/softplus/perspective atoms, rsocone/expcone/kldiv '
            'constraints, ro and dro front ends) and over ro models with robust rows (second SOC-dual layout, mixed SOC+exp cones). '
            'Half of the ro models use products of plain unit balls (several unit-coefficient cones in one set). Sampling, not proof.',
            'Trusts HiGHS (LP) and ECOS (conic) optima; ECOS "close to optimal"/failed statuses are inconclusive; tolerance 1e-6 / 2e-4 '
            'relative; models are feasible, bounded and strictly feasible by construction.',
            'DESIGN.md section 4 / C08'),
    'C06': ('property-based testing with a NumPy re-evaluation oracle: every user constraint and the user objective are evaluated '
            'by independent atom formulas at x.get() / compared with model.get()',
            'Generated-input search over deterministic models covering every atom and cone constraint of the front ends in six '
            'spellings, with multipliers, offsets and double negation, as constraint and as objective, with continuous/integer/'
            'binary variables, in ro and dro; the objective is aimed at a focus constraint so that a dropped or replaced '
            'constraint shows as a positive residual, a dropped objective as get() != f(x*) or a solver certificate of '
            'unboundedness on a box-bounded model. One case in eight is an element-wise atom whose row argument broadcasts against a column-shaped bound / offset / perspective scale (all k*n written constraints are evaluated). Sampling, not proof.',
            'Own NumPy formulas for all atoms; tolerance 1e-6 (LP/MILP) / 5e-5 (conic) times the row scale; closure points of cones '
            '(z=0 in expcone, p=0 in kldiv/entropy) accepted within 1e-6; ECOS failures skipped; integer + exp-cone models not '
            'generated (ECOS_BB is not exact).',
            'DESIGN.md section 4 / C06'),
    'C07': ('property-based testing with three oracles: closed forms of pinned atoms, feasible points constructed under NumPy '
            'evaluation, brute-force enumeration of small MILPs with an inner scipy LP',
            'Generated-input search over (a) single atoms with parameters drawn from the whole admissible space (p-norm degrees, '
            'reduced fractions a/b, power p/q, geometric-mean weights, PSD/NSD incl. singular matrices, multipliers) pinned to an '
            'argument, (b) the C06 models checked against feasible points of the user model (direction C06 cannot see: a compiled '
            'program that is too tight), (c) small mixed-integer models with arbitrary user bounds on binaries/integers and '
            'auxiliary columns. Sampling, not proof.',
            'Tolerance 1e-6 (LP) / 1e-4 (conic) relative; brute force limited to 400 integer points; ECOS failures skipped.',
            'DESIGN.md section 4 / C07'),
    'C10': ('property-based testing against an independent curvature calculus (accept/reject oracle) plus a semantic oracle: the '
            'compiled model with variables pinned at sample points is feasible exactly when the written inequality holds under NumPy',
            'Generated-input search over atom x chain(0-5 steps of scaling incl. zero and negative, negation, left/right addition and '
            'subtraction of constants/affine expressions) x comparison direction and side x use as constraint or min/max objective, '
            'for all 21 atoms in ro and dro, plus the bilinear products the statement lists. Unsound acceptance, acceptance followed '
            'by a crash, and wrong meaning of an accepted constraint/objective are violations; over-rejection is only counted. '
            'Enumerated every run: convex / concave atoms placed around an affinely adaptive dro decision must be refused or be robust at both end points of the support. Sampling, not proof.',
            'The 30-line calculus in vf/props/c10.py is the reference for curvature; feasibility of pinned models decided by HiGHS/ECOS '
            'with a 0.05 margin around the boundary; E(piecewise) expressions and piecewise functions of random variables are not '
            'generated here.',
            'DESIGN.md section 4 / C10'),
    'C14': ('property-based testing with dual-certificate identities (stationarity, strong duality, sign pattern, shapes) computed from '
            'the model IR for every dual-capable solver interface',
            'Generated-input search over feasible bounded continuous LPs (all bound patterns, <=,>=,== rows in four spellings, bounds as '
            'arrays / entries / rows, min and max, split variable arrays, redundant abs/norm rows interleaving auxiliary rows); the '
            'values of dual() from HiGHS, Gurobi and ECOS must each form an optimal dual certificate of the user model. The identities '
            'hold for every optimal dual, so degenerate optima cannot raise an alarm. In one case of three the model is solved, extended by a slack constraint and solved again before dual() is read. Sampling, not proof.',
            'Row orientation follows the statement (>= as <= of the negation, == as written); tolerance 1e-6 / 1e-5 (ECOS) relative; '
            'ro front end only.',
            'DESIGN.md section 4 / C14'),
    'C16': ('property-based round-trip testing: lp_export() text parsed by a strict LP-format reader written for the check (entry-wise '
            'comparison with the formula) and by gurobipy.read (solve and compare optimum); show() frame compared cell by cell',
            'Generated-input search over compiled LP/MILP/SOCP/MISOCP formulas incl. odd coefficient magnitudes, exponent notation, '
            'signed zeros, empty rows, infinite bounds, typed columns with user bounds and cone rows. Finite bounds with more than six significant digits are generated. Sampling, not proof.',
            'The strict reader accepts only the LP-format subset RSOME writes; Gurobi is the independent reader/solver in solve mode; '
            'exp-cone programs are outside the LP format.',
            'DESIGN.md section 4 / C16'),
    'C18': ('property-based testing against closed forms (pinned exponents on the grid -4(0.5)4, degrees 4-8, ECOS and Gurobi) and '
            'differential testing of soc_solve against the exact exp-cone optimum (ECOS) on generated models; structural prefix check of to_socp()',
            'Generated-input search over every exp-cone atom pinned at grid exponents with the cone placed before/between/after other '
            'rows, and over mixed LP/SOC/exp models (also with integer columns for the structural part): relative error <= 1e-3 '
            '(+solver tolerance) for every degree >= 4 whenever all exponents of the exact solution lie in [-4,4]; original rows, '
            'senses, constants, bounds, types and objective must be an unchanged prefix; the cached formula must not be modified '
            'and solve() after soc_solve() must reproduce the exact optimum. User-supplied cut-off values containing the exponent are generated (tight, asymmetric). Sampling, not proof.',
            'Relative error measured against the magnitude of the approximated terms (absolute 1e-3 per log-type term); softplus '
            'arguments limited to [-3.5,4] because its internal exponent is u - t; Gurobi size-limited licence failures are skipped.',
            'DESIGN.md section 4 / C18'),
    'C19': ('property-based differential testing: two builds / repeated do_math and solve / snapshots around solve compared exactly; '
            'user arrays compared byte-wise; digests recomputed in fresh interpreters with other hash seeds',
            'Generated-input search over deterministic and ro models (C06/C01 generators) and a data-handling model consuming user '
            'arrays of four dtypes, strided views, read-only arrays and scipy sparse matrices in every API position. The data model is rebuilt with every writable user array overwritten after the declarations: the program must not move. Sampling, not proof.',
            'Exact equality of standard forms; RNG state compared via numpy.random.get_state/random.getstate; the cross-process part '
            'compares sha1 digests of dense standard forms from 4 fresh interpreters.',
            'DESIGN.md section 4 / C19'),
    'C03': ('property-based testing with an adversarial-distribution oracle: primal moment LP over support atoms (scipy HiGHS), every '
            'witness distribution re-verified against the declared ambiguity set by direct arithmetic, expectations by NumPy',
            'Generated-input search over dro models (1-4 scenarios, event-wise static/affine decisions via random adapt() sequences, '
            'point/box/norm/polytope/ellipsoid/lifted supports, expectation sets on events and sub-events, fixed/box/1-norm/2-norm/KL/'
            'free probability sets, E(affine)/E(maxof)/E(minof) objectives, robust rows): the returned rule evaluated under the worst '
            'distribution found must not beat model.get(), and rows without E must hold at each scenario\'s worst realisation. '
            'Sampling, not proof.',
            'Inner LP is exact for polytope supports and polyhedral probability sets; balls and KL/2-norm sets are attacked with '
            'finitely many atoms / candidate probability vectors (sound, weaker); tolerance 1e-6 / 5e-5 relative.',
            'DESIGN.md section 4 / C03'),
    'C04': ('property-based differential testing against an independent inf-sup solver: outer cutting planes over the decisions with the '
            'exact primal moment LP as inner problem; plus direct sample-average LP and ro-front-end oracles for the two special cases',
            'Generated-input search over the statement\'s domain (polytope supports, polyhedral expectation/probability sets, '
            'piecewise-affine integrands, event-wise affine adaptation); both directions (unsafe / conservative) are violations. '
            'One case in ten writes expectation constraints as equalities E(a.x + g.z + x\'Gz) == c under E(z) == mu and is compared with the LP they denote. Sampling, not proof.',
            'Reference trusted: vertex enumeration (<= 40 half-spaces, dimension <= 4) + scipy HiGHS; non-convergence and artificial '
            'bounds are inconclusive; tolerance 1e-6 relative.',
            'DESIGN.md section 4 / C04'),
    'C13': ('property-based testing with reference optima computed under exactly the declared dependence (cutting planes / moment LP / '
            'per-event LP), NaN-pattern and within-event constancy predicates, exhaustive enumeration of partition pairs, and a '
            'catalogue of illegal declarations that must raise',
            'Generated-input search over ro dependency masks, dro event partitions built by random adapt() sequences (with affine masks), '
            'and pairs of decisions with different partitions combined in one expression; all pairs of partitions of 3 (quick) / 4 '
            '(thorough) scenarios are enumerated. A rule that uses more or less dependence than declared changes the optimum and is '
            'reported. Enumerated every run: dro models whose second random array is declared after the first adapt() call, against the all-declared-first order. Sampling plus small exhaustive enumeration, not proof.',
            'References as in C02/C04; illegal declarations after a formulation may alternatively reproduce the from-scratch result.',
            'DESIGN.md section 4 / C13'),
    'C12': ('property-based testing against a-priori known answers: variables pinned by equalities, LDR coefficients pinned by robust '
            'equalities on a full-dimensional set, dro event-wise decisions whose per-event value is a known maximum over scenario data; '
            'NumPy evaluation of every queried expression',
            'Generated-input search over variable ranks and index queries, dependency masks declared in random adapt() orders, scenario '
            'labelings (int/str/reversed) and partitions from random adapt() sequences, affine / bi-affine (with assigned '
            'realisations) / convex expressions with multipliers and offsets, min and max. Wrong numbers, wrong shapes, wrong labels '
            'and NaN patterns that differ from the declared mask are violations. Perspective atoms are evaluated with numeric and affine scales; a bi-affine dro expression is evaluated at realisations given for all scenarios and / or scenario by scenario in both argument orders. Sampling, not proof.',
            'Expressions whose evaluation RSOME does not support (raises) are counted, not failed; assign() on slices of random '
            'variables and E(...) evaluation are outside the generated domain.',
            'DESIGN.md section 4 / C12'),
    'C11': ('property-based differential testing across solver interfaces with an independent formula checker and brute-force MILP '
            'enumeration; feasible, infeasible and unbounded programs by construction',
            'Generated-input search over LP/MILP/SOCP/MISOCP/exp-cone programs solved through every installed interface that supports '
            'them (default HiGHS, Gurobi, OR-Tools GLOP/SCIP, ECOS/ECOS_BB): equal optima, returned vectors checked against the '
            'compiled program (rows, senses, bounds, integrality, cone membership), and no fabricated solution on infeasible/'
            'unbounded programs (NaN objective, x None, get() raises RuntimeError). Infeasible instances are also made infeasible by a row without terms (0 >= 2) or by a binary whose user bounds exclude 0 and 1. Sampling, not proof.',
            'CLP/CPLEX/Mosek/COPT interfaces cannot be exercised (solvers not installed); ECOS_BB (integers through ECOS) not exercised (can run for minutes on trivial programs); ECOS numerical '
            'failures on feasible programs skipped; exp-cone programs have a single interface (vector check only).',
            'DESIGN.md section 4 / C11'),
    'C15': ('metamorphic property-based testing: two presentations of one generated model drawn from the group of meaning-preserving '
            'rewrites must have equal optima',
            'Generated-input search over deterministic (all atoms) and robust models written twice with independently drawn rewrite '
            'knobs (objective sense flip, declaration and constraint order, comparison spelling, equality vs inequality pair, bound '
            'objects vs rows vs inf-norm, array vs row-wise, rescaling, atom spellings, set argument forms, adapt() granularity, '
            'vector vs scalar robust constraints, ro vs single-scenario dro). A crash or a differing solver verdict in one '
            'presentation is a violation. Sampling, not proof.',
            'Both presentations go through RSOME (no external oracle): a defect shared by all presentations is invisible here and is '
            'the business of C01-C08; kldiv() on decisions has no dro presentation (rejected by design).',
            'DESIGN.md section 4 / C15'),
    'C09': ('model-based property testing over generated call histories: the live model driven by a drawn schedule is compared after every '
            'phase with the model-so-far rebuilt from scratch (differential) and with the independent cutting-plane optimum (absolute)',
            'Generated-input search over histories of ro models (creation order of constraint objects and their forall() sets vs st() '
            'order, position of minmax(), 1-3 phases ending in solve / do_math(primal) / do_math(dual) / repeated solve, further st() '
            'and a new dvar() after a solve, shared expression and set objects), of dro models (constraints added after solve / '
            'do_math) and of models made only of exp-cone-family constraints (a cut added after a solve must not be lost). The '
            'optimum of the dual program returned by do_math(primal=False) is checked as well (stale dual cache). A quarter of the cases are '
            'free-form API histories (vf/opseq.py): a declared model with several decision / random / decision-rule arrays, sets that cover '
            'only some random arrays, stored expression objects finished later, and a schedule drawn state-machine style as a random linear '
            'extension of the dependency order of the single calls (dvar, rvar, ldr, each adapt, set objects, expression objects, forall, st, '
            'objective) with formulation calls through three interfaces in between; after every formulation call the optimum must equal that '
            'of the model declared so far, computed by cutting planes with closed-form support functions (nothing of RSOME involved), and the '
            'decision-rule coefficient pattern must be NaN exactly where no dependence was declared. A late variable is an integer in half of '
            'the LP histories. Sampling, not proof.',
            'Histories are drawn schedules / linear extensions over a replayable JSON IR (generated state-machine style inside one composite '
            'strategy, so the whole history shrinks and replays as one value) rather than a Hypothesis RuleBasedStateMachine; '
            'a leak that affects the history and the from-scratch build identically is only caught by the absolute oracle, which needs '
            'sets with an exact maximiser.',
            'DESIGN.md section 4 / C09'),
    'C17': ('property-based differential testing of model isolation (interleaved build/solve of two generated models vs each model alone) '
            'plus exhaustive enumeration of a misuse catalogue that must raise no later than solve()',
            'Generated-input search over pairs of deterministic / robust / dro models in six interleavings (with re-solves of one model '
            'after the other was built or solved), and the full catalogue of 64 misuse patterns (incl. bi-affine piecewise pieces, scenario sets and random variables of another '
            'model in adapt() and in decision-rule queries, failed models read through every interface) x 4 ro/dro pairings x 2 timings x 2 '
            'sizes enumerated on every run, each foreign-object pattern with a positive control; a solver parameter given to one solve() '
            'must not change the brute-force-verified optimum of the next model. An accepted misuse with a readable result, or an optimum that changes when another model '
            'exists in the process, is a violation. Sampling plus a finite enumeration, not proof.',
            'Interleaving is at the granularity of whole-model build and solve steps (a second model is never built in the middle of '
            'another model\'s constraint list); cone-solver failures skipped.',
            'DESIGN.md section 4 / C17'),
}

NOT_YET = 'check not built yet in this round (see DESIGN.md section 4 for the planned generator and oracle)'


def main():
    props = [json.loads(l) for l in open(os.path.join(ROOT, 'properties.jsonl'))]
    checks = []
    na = []
    for p in props:
        pid = p['id']
        if pid in CHECKS:
            tech, text, note, ref = CHECKS[pid]
            checks.append({
                'property_id': pid,
                'quick_cmd': './check %s quick' % pid,
                'thorough_cmd': './check %s thorough' % pid,
                'evidence_file': 'evidence/%s.json' % pid,
                'replay_cmd_template': './check %s --replay {path}' % pid,
                'engine': 'vf',
                'level_claimed': {'category': 'exploration', 'text': text, 'design_ref': ref},
                'level_note': note,
                'technique': tech,
            })
        else:
            na.append({'property_id': pid, 'reason': NOT_YET})
    man = {
        'version': 1,
        'setup_cmd': ('/venv/bin/python -c "import hypothesis" 2>/dev/null || '
                      '/venv/bin/pip install --no-index --find-links /opt/veriftools/wheels hypothesis; '
                      '/venv/bin/python -c "import hypothesis, rsome, numpy, scipy; print(hypothesis.__version__)"'),
        'hooks': {
            'guard': 'RSOME_VERIF',
            'enable': 'no hooks are needed: every observable is public API or a public attribute; the guard name is reserved but unused',
            'baseline_off_cmd': 'cd /repo && /venv/bin/python -m pytest -ra -q -p no:cacheprovider --timeout=900 --continue-on-collection-errors',
            'source_commits': [],
            'add_only': True,
        },
        'engines': [{'name': 'vf', 'path': 'vf/', 'serves_properties': sorted(CHECKS),
                     'kind_free_text': 'Hypothesis-driven property-based testing with explicit oracles; 16 process shards; '
                                       'bucketed failures shrunk by Hypothesis and written as JSON replay files'}],
        'checks': checks,
        'not_applicable': na,
        'notes': 'All checks run /venv/bin/python against the develop-installed /repo working tree (nothing is copied or cached). '
                 'VERIF_SEED selects the Hypothesis seed; exit 2 = harness error (never a VIOLATION).',
    }
    with open(os.path.join(ROOT, 'MANIFEST.json'), 'w') as f:
        json.dump(man, f, indent=1)
    print('wrote MANIFEST.json with %d checks, %d not_applicable' % (len(checks), len(na)))


if __name__ == '__main__':
    main()
