"""DRO model IR: event-wise ambiguity sets (supports / expectation sets on events / probability sets), event-wise
static and affinely adaptive decisions; RSOME builder; NumPy semantics; independent oracles:

* worst_case(...)  : primal moment LP over support atoms (exact for polytope supports with convex piecewise-affine
                     integrands; a valid lower bound on the supremum for other supports) -> distribution is re-verified
* reference_optimum: outer cutting planes over decisions with that inner LP (C04)
"""
import itertools

import numpy as np
from hypothesis import strategies as st
from scipy.optimize import linprog

from vf import rosets
from vf.quiet import quiet

COEF = [-2.0, -1.0, -1.0, 0.0, 0.0, 1.0, 1.0, 2.0, 0.5]
NZ = [-2.0, -1.0, 1.0, 2.0, 0.5, -0.5]


def _vec(draw, n, pool=COEF):
    return [draw(st.sampled_from(pool)) for _ in range(n)]


# ----------------------------------------------------------------------------- supports
@st.composite
def support_ir(draw, nz, centre, polyhedral=True, lift=False):
    c = list(centre)
    if lift:
        nrm = draw(st.sampled_from([1, 'inf']))
        return {'nz': nz, 'nu': 1, 'centre': c, 'pieces': [
            {'t': 'wass', 'zhat': c, 'norm': nrm, 'umax': draw(st.sampled_from([1.0, 2.0, 3.0]))}]}
    kind = draw(st.sampled_from(['point', 'box', 'box', 'linf', 'l1', 'poly'] + ([] if polyhedral else ['l2', 'l2'])))
    if kind == 'point':
        return {'nz': nz, 'nu': 0, 'centre': c, 'pieces': [{'t': 'box', 'lo': c, 'hi': c, 'style': 'point'}]}
    fams = {'box': ['box'], 'linf': ['linf'], 'l1': ['l1'], 'poly': ['poly', 'box'], 'l2': ['l2']}[kind]
    s = draw(rosets.set_ir(nz, c, families=fams, allow_lift=False, max_pieces=2 if kind == 'poly' else 1))
    if kind == 'poly' and not any(p['t'] == 'box' for p in s['pieces']):
        s['pieces'].append({'t': 'box', 'lo': [v - 2.0 for v in c], 'hi': [v + 2.0 for v in c], 'style': 'bounds'})
    return s


def support_constraints(s, z, u=None):
    import rsome as rso
    out = []
    for p in s['pieces']:
        if p['t'] == 'wass':
            zh = np.array(p['zhat'])
            out.append(rso.norm(z - zh, 1 if p['norm'] == 1 else 'inf') <= u)
            out.append(u <= p['umax'])
        elif p['t'] == 'box' and p.get('style') == 'point':
            out.append(z == np.array(p['lo']))
        else:
            out += rosets.rsome_constraints({'nz': s['nz'], 'nu': 0, 'pieces': [p]}, z, None)
    return out


def support_violation(s, w):
    nz = s['nz']
    z = np.asarray(w[:nz], dtype=float)
    v = -np.inf
    rest = []
    for p in s['pieces']:
        if p['t'] == 'wass':
            u = float(w[nz])
            d = np.abs(z - np.array(p['zhat']))
            v = max(v, (d.sum() if p['norm'] == 1 else d.max()) - u, u - p['umax'])
        else:
            rest.append(p)
    if rest:
        v = max(v, rosets.violation({'nz': nz, 'nu': 0, 'pieces': rest}, z))
    return float(v)


def support_centre(s):
    c = np.array(s['centre'], dtype=float)
    if s['nu']:
        um = [p['umax'] for p in s['pieces'] if p['t'] == 'wass'][0]
        return np.concatenate([c, [0.5 * um]])
    return c


def h_rep(s):
    """(A, b) with A w <= b describing a polyhedral support in w = (z, u); None if not polyhedral"""
    nz, nu = s['nz'], s['nu']
    n = nz + nu
    A, b = [], []
    for p in s['pieces']:
        t = p['t']
        if t == 'box':
            for i in range(nz):
                e = np.zeros(n); e[i] = 1
                A.append(e.copy()); b.append(p['hi'][i])
                A.append(-e); b.append(-p['lo'][i])
        elif t == 'linf':
            for i in range(nz):
                e = np.zeros(n); e[i] = 1
                A.append(e.copy()); b.append(p['c'][i] + p['r'])
                A.append(-e); b.append(-p['c'][i] + p['r'])
        elif t == 'l1':
            for sg in itertools.product([1.0, -1.0], repeat=nz):
                row = np.zeros(n)
                row[:nz] = np.array(sg) * np.array(p['w'])
                A.append(row); b.append(p['r'] + float(row[:nz] @ np.array(p['c'])))
        elif t == 'poly':
            for g, h in zip(p['G'], p['h']):
                row = np.zeros(n); row[:nz] = g
                A.append(row); b.append(h)
        elif t == 'wass':
            zh = np.array(p['zhat'])
            if p['norm'] == 1:
                for sg in itertools.product([1.0, -1.0], repeat=nz):
                    row = np.zeros(n); row[:nz] = sg; row[nz] = -1
                    A.append(row); b.append(float(np.array(sg) @ zh))
            else:
                for i in range(nz):
                    for sg in (1.0, -1.0):
                        row = np.zeros(n); row[i] = sg; row[nz] = -1
                        A.append(row); b.append(sg * zh[i])
            row = np.zeros(n); row[nz] = 1
            A.append(row); b.append(p['umax'])
        else:
            return None
    return np.array(A), np.array(b)


def vertices(s):
    """vertex list of a polyhedral support (None if not polyhedral / enumeration fails)"""
    if len(s['pieces']) == 1 and s['pieces'][0].get('style') == 'point':
        return np.array([s['pieces'][0]['lo']], dtype=float)
    hr = h_rep(s)
    if hr is None:
        return None
    A, b = hr
    n = A.shape[1]
    verts = []
    m = A.shape[0]
    if m > 40:
        return None
    for comb in itertools.combinations(range(m), n):
        M = A[list(comb)]
        if abs(np.linalg.det(M)) < 1e-9:
            continue
        v = np.linalg.solve(M, b[list(comb)])
        if np.all(A @ v <= b + 1e-9):
            if not any(np.max(np.abs(v - q)) < 1e-8 for q in verts):
                verts.append(v)
    if not verts:
        return None
    return np.array(verts)


def atoms_for(s, directions, seed=0):
    """(atoms, exact): vertices for polytopes; otherwise extreme points in the given directions + boundary samples"""
    V = vertices(s)
    if V is not None:
        return V, True
    pts = [support_centre(s)]
    sr = {'nz': s['nz'], 'nu': 0, 'centre': s['centre'], 'pieces': [p for p in s['pieces'] if p['t'] != 'wass']}
    for d in directions:
        for sg in (1.0, -1.0):
            val, w, ex = rosets.maximise(sr, sg * np.asarray(d, dtype=float)[:s['nz']])
            if w is not None:
                pts.append(rosets.pull_in(sr, np.asarray(w, dtype=float), 1e-9))
    for w in rosets.sample_members(sr, 6, 77 + seed):
        pts.append(w)
    return np.array(pts), False


# ----------------------------------------------------------------------------- generation
@st.composite
def _prob_exps(draw, S, nw, supports, allow_kl):
    """probability set and expectation sets of one ambiguity set, built around its centre distribution"""
    parts = [draw(st.integers(1, 4)) for _ in range(S)]
    phat = [v / sum(parts) for v in parts]
    pk = draw(st.sampled_from(['fixed', 'box', 'l1', 'free'] + (['kl', 'l2'] if allow_kl else []))) if S > 1 else 'fixed'
    if pk == 'fixed':
        prob = {'t': 'fixed', 'p': phat}
    elif pk == 'box':
        d = draw(st.sampled_from([0.05, 0.1, 0.2]))
        prob = {'t': 'box', 'lo': [max(0.0, v - d) for v in phat], 'hi': [min(1.0, v + d) for v in phat]}
    elif pk == 'l1':
        prob = {'t': 'l1', 'phat': phat, 'r': draw(st.sampled_from([0.1, 0.2, 0.4]))}
    elif pk == 'kl':
        prob = {'t': 'kl', 'phat': phat, 'r': draw(st.sampled_from([0.02, 0.1]))}
    elif pk == 'l2':
        prob = {'t': 'l2', 'phat': phat, 'r': draw(st.sampled_from([0.1, 0.2]))}
    else:
        prob = {'t': 'free'}
    # expectation sets on events: built around the centre distribution (conditional means = support centres, p = phat)
    cents = np.array([support_centre(s) for s in supports])
    exps = []
    for _ in range(draw(st.integers(0, 2))):
        if draw(st.booleans()):
            ev = list(range(S))
        else:
            ev = sorted(draw(st.sets(st.integers(0, S - 1), min_size=1, max_size=S)))
        pe = np.array([phat[s] for s in ev])
        mean = (pe @ cents[ev]) / pe.sum()
        kind = draw(st.sampled_from(['box', 'box', 'eq', 'l1', 'half'] + (['l2'] if allow_kl else [])))
        comps = sorted(draw(st.sets(st.integers(0, nw - 1), min_size=1, max_size=nw)))
        e = {'event': ev, 'kind': kind, 'comps': comps}
        if kind == 'box':
            e['lo'] = [float(mean[j] - draw(st.sampled_from([0.25, 0.5, 1.0]))) for j in comps]
            e['hi'] = [float(mean[j] + draw(st.sampled_from([0.25, 0.5, 1.0]))) for j in comps]
        elif kind == 'eq':
            e['comps'] = comps[:1]
            e['val'] = [float(mean[comps[0]])]
        elif kind in ('l1', 'l2'):
            e['c'] = [float(mean[j]) for j in comps]
            e['r'] = draw(st.sampled_from([0.5, 1.0]))
        else:
            g = [draw(st.sampled_from(NZ)) for _ in comps]
            e['g'] = g
            e['h'] = float(np.dot(g, mean[comps])) + draw(st.sampled_from([0.25, 0.5, 1.0]))
        exps.append(e)
    return prob, exps


@st.composite
def dro_case(draw, polyhedral=True, allow_kl=False, max_scen=4, allow_lift=True, affine_ok=True, econs=False, amb2_ok=False, det_obj=False):
    S = draw(st.integers(1, max_scen))
    nz = draw(st.integers(1, 3))
    lift = allow_lift and draw(st.integers(0, 5)) == 0
    labels = draw(st.sampled_from(['int', 'str', 'perm']))
    supports = []
    for s in range(S):
        centre = [draw(st.sampled_from([-1.0, 0.0, 0.5, 1.0, 2.0])) for _ in range(nz)]
        supports.append(draw(support_ir(nz, centre, polyhedral=polyhedral, lift=lift)))
    nu = 1 if lift else 0
    nw = nz + nu
    prob, exps = draw(_prob_exps(S, nw, supports, allow_kl))
    amb2 = None
    if amb2_ok and draw(st.integers(0, 2)) == 0:
        # a second ambiguity set of the same model (used through constr.forall(ambset2))
        sup2 = []
        for s in range(S):
            centre = [draw(st.sampled_from([-1.0, 0.0, 0.5, 1.0, 2.0])) for _ in range(nz)]
            sup2.append(draw(support_ir(nz, centre, polyhedral=polyhedral, lift=lift)))
        prob2, exps2 = draw(_prob_exps(S, nw, sup2, allow_kl))
        amb2 = {'supports': sup2, 'prob': prob2, 'exps': exps2}
    # an equality expectation set on an event whose scenarios all have point supports may be inconsistent with other
    # probabilities; the centre distribution satisfies every set strictly (or with equality for 'eq'), so the ambiguity set
    # is non-empty by construction
    nx = draw(st.integers(1, 3))
    ny = draw(st.integers(0, 2))
    # event partition of y built by a sequence of adapt() calls
    calls = []
    remaining = list(range(S))
    if ny and S > 1:
        for _ in range(draw(st.integers(0, S))):
            if len(remaining) <= 0:
                break
            grp = sorted(draw(st.sets(st.sampled_from(remaining), min_size=1, max_size=len(remaining))))
            calls.append(grp)
            remaining = [s for s in remaining if s not in grp]
    ny2 = 0
    calls2 = []
    if ny and S > 1 and draw(st.integers(0, 2)) == 0:
        # a second adaptive decision array with its own event partition (the last ny2 entries of y)
        ny2 = draw(st.integers(1, 2))
        ny += ny2
        rem2 = list(range(S))
        for _ in range(draw(st.integers(0, S))):
            if not rem2:
                break
            grp = sorted(draw(st.sets(st.sampled_from(rem2), min_size=1, max_size=len(rem2))))
            calls2.append(grp)
            rem2 = [s for s in rem2 if s not in grp]
    ymask = [[0] * nw for _ in range(ny)]
    if ny and affine_ok and draw(st.integers(0, 2)) == 0:
        ymask = [[draw(st.integers(0, 1)) for _ in range(nw)] for _ in range(ny)]
    elif ny2 and affine_ok and draw(st.booleans()):
        # two arrays that are both event-wise and affinely adaptive (their coefficient blocks are laid out one after the other)
        ymask = [[draw(st.integers(0, 1)) for _ in range(nw)] for _ in range(ny)]
        for k in (0, ny - 1):
            if not any(ymask[k]):
                ymask[k][draw(st.integers(0, nw - 1))] = 1
    xbar = [float(draw(st.integers(-2, 3))) for _ in range(nx)]
    ybar = [float(draw(st.integers(-2, 3))) for _ in range(ny)]
    xlo = [v - draw(st.sampled_from([0.0, 1.0, 2.0])) for v in xbar]
    xhi = [v + draw(st.sampled_from([0.0, 1.0, 2.0])) for v in xbar]
    cons = []
    for k in range(ny):
        for sgn in (1.0, -1.0):
            b = [0.0] * ny
            b[k] = sgn
            cons.append({'a0': [0.0] * nx, 'b': b, 'c': [0.0] * nw, 'c0': None, 'slack': draw(st.sampled_from([1.0, 2.0, 3.0])),
                         'sense': 'le', 'style': draw(st.integers(0, 2))})
    for _ in range(draw(st.integers(0, 3))):
        row = {'a0': _vec(draw, nx), 'b': _vec(draw, ny), 'c': _vec(draw, nw), 'c0': None,
               'slack': draw(st.sampled_from([0.0, 0.5, 1.0, 2.0])), 'sense': draw(st.sampled_from(['le', 'le', 'ge'])),
               'style': draw(st.integers(0, 2))}
        if not (any(row['a0']) or any(row['b'])):
            row['a0'][0] = 1.0
        if not any(row['c']) and draw(st.booleans()):
            row['explicit_zero'] = True      # 'a.x + 0*z <= b': a random term with all-zero coefficients
        if amb2 is not None and draw(st.booleans()):
            row['amb'] = 1                   # constr.forall(ambset2)
        elif amb2_ok and draw(st.integers(0, 3)) == 0:
            row['amb_explicit'] = True       # constr.forall(ambset) spelled out for the objective's ambiguity set
        if amb2_ok and not row.get('amb') and draw(st.integers(0, 5)) == 0:
            # constr.forall(<support constraints>): one support for all scenarios, given as a plain collection of constraints
            centre = [draw(st.sampled_from([-1.0, 0.0, 0.5, 1.0, 2.0])) for _ in range(nz)]
            row['fsupp'] = draw(support_ir(nz, centre, polyhedral=polyhedral, lift=lift))
            row.pop('amb_explicit', None)
        elif econs and draw(st.integers(0, 2)) == 0:
            # a constraint on the worst-case expectation: E(e) <= 0, or E(maxof(e, e2)) <= 0 / E(minof(e, e2)) >= 0
            row['E'] = True
            row.pop('explicit_zero', None)
            if draw(st.integers(0, 2)) == 0:
                alt = {'a0': _vec(draw, nx), 'b': _vec(draw, ny), 'c': _vec(draw, nw), 'c0': None,
                       'slack': draw(st.sampled_from([0.0, 0.5, 1.0, 2.0])), 'sense': row['sense']}
                row['alt'] = alt
        cons.append(row)
    if econs and draw(st.integers(0, 3)) == 0:
        # one array-valued expectation constraint E(A x + B y + C w + c) <= 0 (>= 0) of two or three rows
        sense, a_ = draw(st.sampled_from(['le', 'ge'])), (1 if amb2 is not None and draw(st.booleans()) else 0)
        for _ in range(draw(st.integers(2, 3))):
            row = {'a0': _vec(draw, nx), 'b': _vec(draw, ny), 'c': _vec(draw, nw), 'c0': None,
                   'slack': draw(st.sampled_from([0.0, 0.0, 0.5, 1.0])), 'sense': sense, 'style': 0, 'E': True, 'vec': 1}
            if a_:
                row['amb'] = 1
            if not (any(row['a0']) or any(row['b'])):
                row['a0'][0] = 1.0
            if not any(row['c']):
                row['c'][draw(st.integers(0, nw - 1))] = 1.0
            cons.append(row)
    if amb2 is not None and econs and not any(r.get('E') and r.get('amb') for r in cons) and draw(st.booleans()):
        # an expectation constraint over the second ambiguity set (its probability set differs from the objective's)
        row = {'a0': _vec(draw, nx), 'b': _vec(draw, ny), 'c': _vec(draw, nw), 'c0': None,
               'slack': draw(st.sampled_from([0.0, 0.0, 0.5, 1.0])), 'sense': draw(st.sampled_from(['le', 'ge'])),
               'style': draw(st.integers(0, 2)), 'E': True, 'amb': 1}
        if not (any(row['a0']) or any(row['b'])):
            row['a0'][0] = 1.0
        if not any(row['c']):
            row['c'][0] = 1.0
        cons.append(row)
    okind = draw(st.sampled_from(['minsup', 'minsup', 'maxinf']))
    npieces = draw(st.sampled_from([1, 1, 2, 3]))
    pieces = []
    for _ in range(npieces):
        pc = {'d0': _vec(draw, nx), 'e': _vec(draw, ny), 'f': _vec(draw, nw), 'f0': float(draw(st.integers(-1, 1)))}
        pieces.append(pc)
    if det_obj and draw(st.integers(0, 5)) == 0:
        # m.min(expr) / m.max(expr): no default ambiguity set, every uncertain constraint names its set through forall();
        # the objective is affine in x and in the event-wise constants of y (worst scenario counts), without random terms
        okind = 'min' if okind == 'minsup' else 'max'
        pieces = pieces[:1]
        pieces[0]['f'] = [0.0] * nw
        pieces[0]['e'] = [v if not any(ymask[k]) else 0.0 for k, v in enumerate(pieces[0]['e'])]
        for row in cons:
            if not row.get('amb') and not row.get('fsupp'):
                row['amb_explicit'] = True
                row.pop('explicit_zero', None)
    if not any(any(pc['d0']) or any(pc['e']) for pc in pieces):
        pieces[0]['d0'][0] = 1.0
    case = {'S': S, 'labels': labels, 'nz': nz, 'nu': nu, 'supports': supports, 'prob': prob, 'exps': exps,
            'nx': nx, 'ny': ny, 'ny2': ny2, 'adapt_calls': calls, 'adapt_calls2': calls2, 'ymask': ymask,
            'xpos': draw(st.integers(0, 2)), 'xlo': xlo, 'xhi': xhi, 'cons': cons,
            'obj': {'kind': okind, 'pieces': pieces}, 'witness': {'x': xbar, 'y': ybar},
            'supp_style': draw(st.sampled_from(['each', 'grouped'])), 'amb2': amb2,
            # events named by labels or by fset[labels] objects; entry slices taken before any adapt() call or at the call
            'adapt_scen_obj': draw(st.booleans()), 'slices_first': draw(st.booleans())}
    fill_constants(case)
    return case


def events_of(case, group=0):
    """partition of scenarios produced by the adapt() calls of a group, in RSOME's order (remaining first, then each call)"""
    S = case['S']
    rem = list(range(S))
    ev = []
    for grp in (case['adapt_calls'] if group == 0 else case.get('adapt_calls2', [])):
        rem = [s for s in rem if s not in grp]
        ev.append(list(grp))
    out = ([rem] if rem else []) + ev
    return out


def event_index(case, group=0):
    ev = events_of(case, group)
    idx = {}
    for k, grp in enumerate(ev):
        for s in grp:
            idx[s] = k
    return idx, ev


def group_of(case, k):
    """adaptive group of y entry k (the last ny2 entries form the second group)"""
    return 1 if k >= case['ny'] - case.get('ny2', 0) else 0


def amb_view(case, i):
    """the case with the i-th ambiguity set (0 = the objective's, 1 = case['amb2']) as its supports / prob / exps"""
    if not i:
        return case
    a = case['amb2']
    return dict(case, supports=a['supports'], prob=a['prob'], exps=a['exps'])


def row_view(case, row):
    """the case as seen by a constraint: its own support (forall(<constraints>)), the second ambiguity set, or the default"""
    if row.get('fsupp'):
        return dict(case, supports=[row['fsupp']] * case['S'])
    return amb_view(case, row.get('amb', 0))


def row_pieces(row):
    """affine pieces of a constraint: E rows may carry a second piece (E(maxof) <= 0 / E(minof) >= 0)"""
    return [row] + ([row['alt']] if row.get('alt') else [])


def fill_constants(case):
    """constants such that every affine piece of every row has slack >= row['slack'] at the witness for every realisation of the
    supports of the row's ambiguity set (so E rows hold at the witness under every distribution)"""
    x, y = np.array(case['witness']['x']), np.array(case['witness']['y'])
    for row0 in case['cons']:
        sups = row_view(case, row0)['supports']
        for row in row_pieces(row0):
            k = float(np.array(row['a0']) @ x + (np.array(row['b']) @ y if len(y) else 0.0))
            g = np.array(row['c'], dtype=float)
            worst = -np.inf
            for s in sups:
                gg = g if row0['sense'] == 'le' else -g
                val = support_max(s, gg, fallback=float(gg[:s['nz']] @ np.array(s['centre'])) + 10.0)
                worst = max(worst, val)
            if row0['sense'] == 'le':
                row['c0'] = float(-(k + worst) - row['slack'])
            else:
                row['c0'] = float(-(k - worst) + row['slack'])


def support_max(s, g, fallback=None):
    """max g.w over a support (exact for polytopes via vertices, closed form/cone program otherwise); returns `fallback`
    (None by default) when the independent maximiser fails - callers must not turn that into a verdict"""
    g = np.asarray(g, dtype=float)
    V = vertices(s)
    if V is not None:
        return float(np.max(V @ g))
    if np.max(np.abs(g)) < 1e-9:
        return float(g[:s['nz']] @ np.array(s['centre']))
    sr = {'nz': s['nz'], 'nu': 0, 'centre': s['centre'], 'pieces': s['pieces']}
    val, w, ex = rosets.maximise(sr, g[:s['nz']])
    if val is None:
        return fallback
    return float(val)


# ----------------------------------------------------------------------------- builder
def scen_labels(case):
    if case['labels'] == 'perm':          # integer labels that are a permutation of the positions
        return list(range(case['S'] - 1, -1, -1))
    if case['labels'] == 'int':
        return list(range(case['S']))
    return ['s%d' % (i * 3 % 7 + 10 * i) for i in range(case['S'])]


def build(case):
    import rsome as rso
    from rsome import dro, E
    S = case['S']
    lab = scen_labels(case)
    m = dro.Model(S) if case['labels'] == 'int' else dro.Model(lab)
    nx, ny, nz, nu = case['nx'], case['ny'], case['nz'], case['nu']
    ny2 = case.get('ny2', 0)
    ny1 = ny - ny2
    xpos = case.get('xpos', 0)
    # declaration order of the decision arrays varies (x first / between / last)
    x = m.dvar(nx) if xpos == 0 else None
    ya = m.dvar(ny1) if ny1 else None
    if xpos == 1:
        x = m.dvar(nx)
    yb = m.dvar(ny2) if ny2 else None
    if x is None:
        x = m.dvar(nx)
    z = m.rvar(nz)
    u = m.rvar() if nu else None
    fset = m.ambiguity()
    fset2 = m.ambiguity() if case.get('amb2') else None
    if ny:
        import rsome as rso_
        for yv, calls in ((ya, case['adapt_calls']), (yb, case.get('adapt_calls2', []))):
            if yv is None:
                continue
            for grp in calls:
                if case.get('adapt_scen_obj'):
                    yv.adapt(fset[lab[grp[0]]] if len(grp) == 1 else fset[[lab[s] for s in grp]])
                elif len(grp) == 1 and grp[0] % 2 == 0:
                    yv.adapt(lab[grp[0]])
                else:
                    yv.adapt([lab[s] for s in grp])
        mask = np.array(case['ymask']).reshape(ny, nz + nu)
        entries = [ya[k] if k < ny1 else yb[k - ny1] for k in range(ny)] if case.get('slices_first') else None
        for k in range(ny):
            yk = entries[k] if entries is not None else (ya[k] if k < ny1 else yb[k - ny1])
            for (rv, off, n) in ((z, 0, nz), (u, nz, nu)):
                if rv is None:
                    continue
                cols = mask[k, off:off + n]
                if not cols.any():
                    continue
                if rv is u:
                    yk.adapt(u)
                elif cols.all():
                    yk.adapt(z)
                else:
                    for j in range(n):
                        if cols[j]:
                            yk.adapt(z[j])

    def ydot(coef):
        """coef . y for the two adaptive arrays presented as one vector of ny entries"""
        coef = np.asarray(coef, dtype=float)
        e = None
        if ny1 and np.any(coef[:ny1]):
            e = coef[:ny1] @ ya
        if ny2 and np.any(coef[ny1:]):
            t = coef[ny1:] @ yb
            e = t if e is None else e + t
        return e if e is not None else 0.0
    y = ydot if ny else None
    def declare_amb(fs, amb, parts=('supp', 'exp', 'prob'), exps=None):
        # supports
        done = set()
        for s in (range(S) if 'supp' in parts else []):
            if s in done:
                continue
            same = [s]
            if case['supp_style'] == 'grouped':
                same = [t for t in range(s, S) if amb['supports'][t] == amb['supports'][s] and t not in done]
            cons = support_constraints(amb['supports'][s], z, u)
            if len(same) == 1:
                fs[lab[s]].suppset(*cons) if s % 2 else fs[lab[s]].suppset(cons)
            else:
                fs[[lab[t] for t in same]].suppset(cons)
            done.update(same)
        # expectation sets
        for e in ((amb['exps'] if exps is None else exps) if 'exp' in parts else []):
            Ez, Eu = E(z), (E(u) if nu else None)

            def comp(j):
                return Ez[j] if j < nz else Eu
            cs = []
            if e['kind'] == 'box':
                for j, lo, hi in zip(e['comps'], e['lo'], e['hi']):
                    cs += [comp(j) >= lo, comp(j) <= hi]
            elif e['kind'] == 'eq':
                cs.append(comp(e['comps'][0]) == e['val'][0])
            elif e['kind'] in ('l1', 'l2'):
                terms = [comp(j) - c for j, c in zip(e['comps'], e['c'])]
                cs.append(rso.norm(rso.vec(*terms), 1 if e['kind'] == 'l1' else 2) <= e['r'])
            else:
                expr = 0
                for j, g in zip(e['comps'], e['g']):
                    expr = expr + g * comp(j)
                cs.append(expr <= e['h'])
            ev = e['event']
            if len(ev) == S:
                fs.exptset(*cs)
            else:
                fs[[lab[s] for s in ev]].exptset(*cs)
        if 'prob' not in parts:
            return
        p = m.p
        pr = amb['prob']
        if pr['t'] == 'fixed':
            fs.probset(p == np.array(pr['p']))
        elif pr['t'] == 'box':
            fs.probset(p >= np.array(pr['lo']), p <= np.array(pr['hi']))
        elif pr['t'] == 'l1':
            fs.probset(rso.norm(p - np.array(pr['phat']), 1) <= pr['r'])
        elif pr['t'] == 'l2':
            fs.probset(rso.norm(p - np.array(pr['phat'])) <= pr['r'])
        elif pr['t'] == 'kl':
            fs.probset(rso.kldiv(p, np.array(pr['phat']), pr['r']))
    declare_amb(fset, case)
    if fset2 is not None:
        declare_amb(fset2, case['amb2'])
    # objective
    o = case['obj']

    def piece_expr(pc):
        e = np.array(pc['d0']) @ x + pc['f0']
        if ny and any(pc['e']):
            e = e + ydot(pc['e'])
        f = np.array(pc['f'])
        if np.any(f[:nz]):
            e = e + f[:nz] @ z
        if nu and f[nz]:
            e = e + float(f[nz]) * u
        return e
    pcs = [piece_expr(pc) for pc in o['pieces']]
    if o['kind'] in ('min', 'max'):
        (m.min if o['kind'] == 'min' else m.max)(pcs[0])
    else:
        if len(pcs) == 1:
            obj = E(pcs[0])
        elif o['kind'] == 'minsup':
            obj = E(rso.maxof(*pcs))
        else:
            obj = E(rso.minof(*pcs))
        (m.minsup if o['kind'] == 'minsup' else m.maxinf)(obj, fset)
    m.st(x >= np.array(case['xlo']), x <= np.array(case['xhi']))
    def row_expr(row, style, zero=False):
        e = np.array(row['a0']) @ x + row['c0']
        if ny and any(row['b']):
            e = e + ydot(row['b'])
        c = np.array(row['c'])
        if np.any(c[:nz]) or zero:
            e = e + (c[:nz] @ z if style != 1 else (c[:nz] * z).sum())
        if nu and c[nz]:
            e = e + float(c[nz]) * u
        return e
    vrows = [r for r in case['cons'] if r.get('vec')]
    if vrows:
        A0 = np.array([r['a0'] for r in vrows])
        e = A0 @ x + np.array([r['c0'] for r in vrows])
        Bm = np.array([r['b'] for r in vrows]) if ny else None
        if ny1 and np.any(Bm[:, :ny1]):
            e = e + Bm[:, :ny1] @ ya
        if ny2 and np.any(Bm[:, ny1:]):
            e = e + Bm[:, ny1:] @ yb
        Cm = np.array([r['c'] for r in vrows])
        e = e + Cm[:, :nz] @ z
        if nu and np.any(Cm[:, nz]):
            e = e + Cm[:, nz] * u
        con = (E(e) <= 0) if vrows[0]['sense'] == 'le' else (E(e) >= 0)
        if vrows[0].get('amb'):
            con = con.forall(fset2)
        elif vrows[0].get('amb_explicit'):
            con = con.forall(fset)
        m.st(con)
    for row in case['cons']:
        if row.get('vec'):
            continue
        e = row_expr(row, row['style'], row.get('explicit_zero'))
        if row.get('E'):
            if row.get('alt'):
                e2 = row_expr(row['alt'], row['style'])
                con = (E(rso.maxof(e, e2)) <= 0) if row['sense'] == 'le' else (E(rso.minof(e, e2)) >= 0)
            else:
                con = (E(e) <= 0) if row['sense'] == 'le' else (E(e) >= 0)
        else:
            con = (e <= 0) if row['sense'] == 'le' else (e >= 0)
        if row.get('fsupp'):
            sc = support_constraints(row['fsupp'], z, u)
            con = con.forall(sc) if row["style"] != 2 else con.forall(tuple(sc))
        elif row.get('amb'):
            con = con.forall(fset2)
        elif row.get('amb_explicit'):
            con = con.forall(fset)
        m.st(con)
    return m, {'x': x, 'y': y, 'ya': ya if ny else None, 'yb': yb if ny else None, 'z': z, 'u': u, 'fset': fset, 'fset2': fset2,
               'labels': lab, 'declare_amb': declare_amb}


def pick_solver(case):
    from rsome import eco_solver
    ambs = [case] + ([case['amb2']] if case.get('amb2') else []) + [{'supports': [r['fsupp']], 'prob': {'t': 'fixed'}} for r in case['cons'] if r.get('fsupp')]
    conic = any(p['t'] == 'l2' for a in ambs for s in a['supports'] for p in s['pieces']) or any(a['prob']['t'] in ('kl', 'l2') for a in ambs) \
        or any(e['kind'] == 'l2' for a in ambs for e in a.get('exps', []))
    return (eco_solver, 'conic') if conic else (None, 'lp')


def solve(m, solver):
    with quiet():
        m.solve(solver, display=False)
    sol = m.solution
    if sol is None or sol.x is None or np.isnan(sol.objval) or 'lose' in str(sol.status):
        return None
    return m.get()


def read_solution(case, h):
    """x (nx), y0[s] (S x ny), Y[s] (S x ny x nw) from get()/get(z); also returns the raw objects for label checks"""
    import pandas as pd
    S, nx, ny, nz, nu = case['S'], case['nx'], case['ny'], case['nz'], case['nu']
    lab = h['labels']
    x = np.array(h['x'].get(), dtype=float).reshape(nx)
    y0 = np.zeros((S, ny))
    Y = np.zeros((S, ny, nz + nu))
    raw = {}
    if ny:
        ny2 = case.get('ny2', 0)
        ny1 = ny - ny2
        mask = np.array(case['ymask']).reshape(ny, nz + nu)
        for (yv, lo_, hi_, tag) in ((h['ya'], 0, ny1, 'a'), (h['yb'], ny1, ny, 'b')):
            if yv is None or hi_ == lo_:
                continue
            g = yv.get()
            raw['y' + tag] = g
            if isinstance(g, pd.Series):
                for s in range(S):
                    y0[s, lo_:hi_] = np.array(g[lab[s]], dtype=float).reshape(hi_ - lo_)
            else:
                y0[:, lo_:hi_] = np.array(g, dtype=float).reshape(hi_ - lo_)
            if mask[lo_:hi_].any():
                for (rv, off, n) in ((h['z'], 0, nz), (h['u'], nz, nu)):
                    if rv is None:
                        continue
                    g = yv.get(rv)
                    raw['Y%s%d' % (tag, off)] = g
                    for s in range(S):
                        gs = g[lab[s]] if isinstance(g, pd.Series) else g
                        Y[s][lo_:hi_, off:off + n] = np.array(gs, dtype=float).reshape(hi_ - lo_, n)
        Y = np.where(np.isnan(Y), 0.0, Y)
    return x, y0, Y, raw


# ----------------------------------------------------------------------------- NumPy semantics
def integrand(case, x, y0s, Ys, w):
    """value of the objective integrand at atom w for a scenario with rule (y0s, Ys)"""
    y = y0s + Ys @ w if len(y0s) else y0s
    vals = [float(np.array(pc['d0']) @ x + (np.array(pc['e']) @ y if len(y) else 0.0) + np.array(pc['f']) @ w + pc['f0'])
            for pc in case['obj']['pieces']]
    return max(vals) if case['obj']['kind'] in ('minsup', 'min') else min(vals)


def row_integrand(row0, x, y0s, Ys, w):
    """value of a constraint's left-hand side at atom w: max of the pieces for '<= 0' rows, min for '>= 0' rows"""
    y = y0s + Ys @ w if len(y0s) else y0s
    vals = [float(np.array(r['a0']) @ x + (np.array(r['b']) @ y if len(y) else 0.0) + np.array(r['c']) @ w + r['c0'])
            for r in row_pieces(row0)]
    return max(vals) if row0['sense'] == 'le' else min(vals)


def adversary(view, x, y0, Y, pieces_dirs, fun, sign):
    """worst-case expectation (sign=+1: sup, -1: inf) of fun(s, w) over the ambiguity set `view` attacked with finitely many
    atoms; returns (value, weights, p, atoms, exact) for a verified member of the set, or None"""
    S, nz, nu, ny = view['S'], view['nz'], view['nu'], view['ny']
    atoms, exact = [], True
    for s in range(S):
        ds = [d + (Y[s].T @ np.array(e) if ny else 0.0) for d, e in pieces_dirs]
        a, ex = atoms_for(view['supports'][s], ds + [np.eye(nz + nu)[j] for j in range(nz)], seed=s)
        if nu and a.shape[1] == nz:
            return None
        atoms.append(a)
        exact = exact and ex
    vals = [[fun(s, w) for w in atoms[s]] for s in range(S)]
    results = []
    if view['prob']['t'] in ('kl', 'l2'):
        gains = [max(v) if sign > 0 else -min(v) for v in vals]
        for pc in p_candidates(view, gains):
            r = worst_case(view, atoms, vals, sign=sign, p_fixed=pc)
            if r is not None:
                results.append(r)
    else:
        r = worst_case(view, atoms, vals, sign=sign)
        if r is not None:
            results.append(r)
    if not results:
        return None
    wval, wts, p = max(results, key=lambda r: sign * r[0])
    if verify_distribution(view, atoms, wts):
        return None
    return wval, wts, p, atoms, exact


def prob_violation(pr, p):
    p = np.asarray(p, dtype=float)
    v = max(float(np.max(-p)), abs(float(p.sum()) - 1.0))
    if pr['t'] == 'fixed':
        v = max(v, float(np.max(np.abs(p - np.array(pr['p'])))))
    elif pr['t'] == 'box':
        v = max(v, float(np.max(np.array(pr['lo']) - p)), float(np.max(p - np.array(pr['hi']))))
    elif pr['t'] == 'l1':
        v = max(v, float(np.sum(np.abs(p - np.array(pr['phat'])))) - pr['r'])
    elif pr['t'] == 'l2':
        v = max(v, float(np.linalg.norm(p - np.array(pr['phat']))) - pr['r'])
    elif pr['t'] == 'kl':
        ph = np.array(pr['phat'])
        pp = np.maximum(p, 1e-300)
        v = max(v, float(np.sum(np.where(p > 0, pp * np.log(pp / ph), 0.0))) - pr['r'])
    return v


def exp_violation(e, mean):
    mj = np.array([mean[j] for j in e['comps']])
    if e['kind'] == 'box':
        return float(max(np.max(np.array(e['lo']) - mj), np.max(mj - np.array(e['hi']))))
    if e['kind'] == 'eq':
        return float(abs(mj[0] - e['val'][0]))
    if e['kind'] == 'l1':
        return float(np.sum(np.abs(mj - np.array(e['c']))) - e['r'])
    if e['kind'] == 'l2':
        return float(np.linalg.norm(mj - np.array(e['c'])) - e['r'])
    return float(np.dot(e['g'], mj) - e['h'])


def worst_case(case, atoms, values, sign=1.0, p_fixed=None):
    """primal moment LP: maximise sign * sum_s sum_v w[s,v]*values[s][v] over joint weights on the atoms, subject to the
    probability set (polyhedral kinds; other kinds need p_fixed) and the expectation sets.
    Returns (value, weights list per scenario, p) or None."""
    S = case['S']
    nw = case['nz'] + case['nu']
    sizes = [len(a) for a in atoms]
    offs = np.concatenate([[0], np.cumsum(sizes)])
    N = int(offs[-1])
    pr = case['prob']
    extra = 0
    aux_p = None
    if p_fixed is None and pr['t'] == 'l1':
        aux_p = N
        extra += S
    aux_e = []
    for e in case['exps']:
        if e['kind'] in ('l1', 'l2'):      # a 2-norm ball is attacked through the inscribed 1-norm ball (sound, weaker)
            aux_e.append(N + extra)
            extra += len(e['comps'])
        else:
            aux_e.append(None)
    NV = N + extra
    A_ub, b_ub, A_eq, b_eq = [], [], [], []

    def prow(s):
        r = np.zeros(NV)
        r[offs[s]:offs[s + 1]] = 1.0
        return r
    A_eq.append(sum(prow(s) for s in range(S))); b_eq.append(1.0)
    if p_fixed is not None:
        for s in range(S):
            A_eq.append(prow(s)); b_eq.append(float(p_fixed[s]))
    elif pr['t'] == 'fixed':
        for s in range(S):
            A_eq.append(prow(s)); b_eq.append(pr['p'][s])
    elif pr['t'] == 'box':
        for s in range(S):
            A_ub.append(prow(s)); b_ub.append(pr['hi'][s])
            A_ub.append(-prow(s)); b_ub.append(-pr['lo'][s])
    elif pr['t'] == 'l1':
        tot = np.zeros(NV)
        for s in range(S):
            r = prow(s); r[aux_p + s] = -1.0
            A_ub.append(r); b_ub.append(pr['phat'][s])
            r = -prow(s); r[aux_p + s] = -1.0
            A_ub.append(r); b_ub.append(-pr['phat'][s])
            tot[aux_p + s] = 1.0
        A_ub.append(tot); b_ub.append(pr['r'])
    elif pr['t'] == 'free':
        pass
    else:
        return None
    for e, ax in zip(case['exps'], aux_e):
        ev = e['event']
        P = sum(prow(s) for s in ev)

        def mom(j):
            r = np.zeros(NV)
            for s in ev:
                r[offs[s]:offs[s + 1]] = atoms[s][:, j]
            return r
        if e['kind'] == 'box':
            for j, lo, hi in zip(e['comps'], e['lo'], e['hi']):
                A_ub.append(mom(j) - hi * P); b_ub.append(0.0)
                A_ub.append(lo * P - mom(j)); b_ub.append(0.0)
        elif e['kind'] == 'eq':
            A_eq.append(mom(e['comps'][0]) - e['val'][0] * P); b_eq.append(0.0)
        elif e['kind'] == 'half':
            r = np.zeros(NV)
            for j, g in zip(e['comps'], e['g']):
                r += g * mom(j)
            A_ub.append(r - e['h'] * P); b_ub.append(0.0)
        else:
            tot = np.zeros(NV)
            for i, (j, c) in enumerate(zip(e['comps'], e['c'])):
                r = mom(j) - c * P; r[ax + i] = -1.0
                A_ub.append(r); b_ub.append(0.0)
                r = -(mom(j) - c * P); r[ax + i] = -1.0
                A_ub.append(r); b_ub.append(0.0)
                tot[ax + i] = 1.0
            A_ub.append(tot - e['r'] * P); b_ub.append(0.0)
    cost = np.zeros(NV)
    for s in range(S):
        cost[offs[s]:offs[s + 1]] = -sign * np.asarray(values[s], dtype=float)
    res = linprog(cost, A_ub=np.array(A_ub) if A_ub else None, b_ub=np.array(b_ub) if b_ub else None,
                  A_eq=np.array(A_eq), b_eq=np.array(b_eq), bounds=[(0, None)] * NV, method='highs')
    if res.status != 0:
        return None
    wts = [res.x[offs[s]:offs[s + 1]] for s in range(S)]
    p = np.array([w.sum() for w in wts])
    return sign * float(-res.fun), wts, p


def verify_distribution(case, atoms, wts, tol=1e-7):
    """direct arithmetic: is the discrete distribution (atoms, joint weights) a member of the declared ambiguity set?"""
    S = case['S']
    p = np.array([w.sum() for w in wts])
    if np.any(np.concatenate(wts) < -tol):
        return 'negative weight'
    if prob_violation(case['prob'], p) > tol:
        return 'probabilities outside the probability set (%.3g)' % prob_violation(case['prob'], p)
    for s in range(S):
        for v, wt in zip(atoms[s], wts[s]):
            if wt > tol and support_violation(case['supports'][s], v) > 1e-7:
                return 'atom outside the support of scenario %d' % s
    for e in case['exps']:
        ev = e['event']
        P = p[ev].sum()
        if P <= tol:
            continue
        mean = sum(wts[s] @ atoms[s] for s in ev) / P
        if exp_violation(e, mean) > 1e-6:
            return 'event mean outside its expectation set (%.3g)' % exp_violation(e, mean)
    return None


def p_candidates(case, gains):
    """members of non-polyhedral probability sets used as fixed p in the moment LP (sound: each is verified)"""
    pr = case['prob']
    ph = np.array(pr['phat'])
    cands = [ph]
    if pr['t'] == 'kl':
        val, z, ex = rosets._max_kl({'phat': list(ph), 'r': pr['r']}, np.asarray(gains, dtype=float))
        cands.append(z)
    elif pr['t'] == 'l2':
        g = np.asarray(gains, dtype=float)
        g = g - g.mean()
        if np.linalg.norm(g) > 0:
            for t in (1.0, 0.5):
                q = ph + t * pr['r'] * g / np.linalg.norm(g)
                if np.all(q >= 0):
                    cands.append(q)
    return [c for c in cands if prob_violation(pr, c) <= 1e-9]


# ----------------------------------------------------------------------------- reference (C04)
def reference_optimum(case, max_rounds=60, tol=1e-7):
    """see _reference_optimum. Rule coefficients carry an artificial bound B; when it is active at the optimum (coefficients on
    directions in which a support has no width are arbitrary) the problem is solved again with B/100: the optimal value is convex
    and non-increasing in B, so equal values for B = 1e2 and B = 1e4 mean that the bound does not matter"""
    ref, info = _reference_optimum(case, max_rounds, tol, 1e4)
    if ref is None and info == 'artificial bound active':
        r2, i2 = _reference_optimum(case, max_rounds, tol, 1e2, accept_bound=True)
        r1, i1 = _reference_optimum(case, max_rounds, tol, 1e4, accept_bound=True)
        if r1 is not None and r2 is not None and abs(r1 - r2) <= 1e-7 * (1 + abs(r1)):
            return r2, i2
    return ref, info


def _reference_optimum(case, max_rounds=60, tol=1e-7, B=1e4, accept_bound=False):
    """min over (x, event-wise rules with declared masks) of the worst-case expectation, by cutting planes with the exact
    inner moment LP.  Only for polytope supports and polyhedral probability sets."""
    S, nx, ny, nz, nu = case['S'], case['nx'], case['ny'], case['nz'], case['nu']
    nw = nz + nu
    atoms_by = {}
    for a in ([0, 1] if case.get('amb2') else [0]):
        atoms_by[a] = []
        for s in amb_view(case, a)['supports']:
            V = vertices(s)
            if V is None:
                return None, 'support not enumerable'
            atoms_by[a].append(V)
    atoms = atoms_by[0]
    mask = np.array(case['ymask']).reshape(ny, nw).astype(bool) if ny else np.zeros((0, nw), dtype=bool)
    gidx = [event_index(case, 0), event_index(case, 1)]
    # layout: for every y entry k and every event of its group: one constant + one coefficient per declared dependency
    ent = []
    pos = nx
    for k in range(ny):
        idx_k, ev_k = gidx[group_of(case, k)]
        deps = [j for j in range(nw) if mask[k, j]]
        ent.append((pos, idx_k, deps))
        pos += len(ev_k) * (1 + len(deps))
    nv = pos + 1
    T = nv - 1
    sign = 1.0 if case['obj']['kind'] in ('minsup', 'min') else -1.0
    det_obj = case['obj']['kind'] in ('min', 'max')

    def ycoef(s, w):
        """matrix R (ny x nv) with y_s(w) = R v"""
        R = np.zeros((ny, nv))
        for k in range(ny):
            base, idx_k, deps = ent[k]
            b0 = base + idx_k[s] * (1 + len(deps))
            R[k, b0] = 1.0
            for q, j in enumerate(deps):
                R[k, b0 + 1 + q] = w[j]
        return R

    def unpack(v):
        x = v[:nx]
        y0 = np.zeros((S, ny))
        Y = np.zeros((S, ny, nw))
        for s in range(S):
            for k in range(ny):
                base, idx_k, deps = ent[k]
                b0 = base + idx_k[s] * (1 + len(deps))
                y0[s, k] = v[b0]
                for q, j in enumerate(deps):
                    Y[s, k, j] = v[b0 + 1 + q]
        return x, y0, Y
    A_ub, b_ub = [], []
    # robust rows at every vertex of every scenario (exact for polytopes)
    erows = []
    for row in case['cons']:
        sg = 1.0 if row['sense'] == 'le' else -1.0
        if row.get('E'):
            erows.append(row)
            continue
        if row.get('fsupp'):
            Vr = vertices(row['fsupp'])
            if Vr is None:
                return None, 'support not enumerable'
        for s in range(S):
            for w in (Vr if row.get('fsupp') else atoms_by[row.get('amb', 0)][s]):
                coef = np.zeros(nv)
                coef[:nx] = row['a0']
                if ny:
                    coef += np.array(row['b']) @ ycoef(s, w)
                const = float(np.array(row['c']) @ w + row['c0'])
                A_ub.append(sg * coef); b_ub.append(-sg * const)
    bounds = [(case['xlo'][i], case['xhi'][i]) for i in range(nx)] + [(-B, B)] * (nv - 1 - nx) + [(-1e7, 1e7)]
    cost = np.zeros(nv)
    cost[T] = 1.0

    def piece_coef(pc, s, w):
        coef = np.zeros(nv)
        coef[:nx] = pc['d0']
        if ny:
            coef += np.array(pc['e']) @ ycoef(s, w)
        return coef, float(np.array(pc['f']) @ w + pc['f0'])
    # initial cut: centre distribution with first piece
    cuts = 0
    v = None
    for rnd in range(max_rounds):
        if cuts:
            res = linprog(cost, A_ub=np.array(A_ub), b_ub=np.array(b_ub), bounds=bounds, method='highs')
            if res.status == 2:
                return None, 'reference infeasible'
            if res.status != 0:
                return None, 'master status %d' % res.status
            v = res.x
        else:
            v = np.zeros(nv)
            v[:nx] = case['witness']['x']
            for k in range(ny):
                base, idx_k, deps = ent[k]
                for e_ in set(idx_k.values()):
                    v[base + e_ * (1 + len(deps))] = case['witness']['y'][k]
            v[T] = -1e7
        x, y0, Y = unpack(v)
        vals = [[integrand(case, x, y0[s], Y[s], w) for w in atoms[s]] for s in range(S)]
        if det_obj:
            # m.min / m.max: the objective bounds the expression in every scenario (no probabilities involved)
            sv = [vals[s][0] for s in range(S)]
            sb = int(np.argmax(sign * np.array(sv)))
            wts = [np.zeros(len(atoms[s])) for s in range(S)]
            wts[sb][0] = 1.0
            wc = (sv[sb], wts, np.eye(S)[sb])
        else:
            wc = worst_case(case, atoms, vals, sign=sign)
        if wc is None:
            return None, 'inner moment LP failed (ambiguity set empty?)'
        val, wts, p = wc          # val = sup E[f] for minsup; inf E[f] for maxinf
        gap = sign * val - v[T]
        # expectation constraints: a cut at the worst distribution of the row's ambiguity set whenever it is violated
        ecut = 0
        eact = 0
        for row0 in erows:
            a = row0.get('amb', 0)
            view = amb_view(case, a)
            sg = 1.0 if row0['sense'] == 'le' else -1.0
            rv = [[row_integrand(row0, x, y0[s], Y[s], w) for w in atoms_by[a][s]] for s in range(S)]
            wr = worst_case(view, atoms_by[a], rv, sign=sg)
            if wr is None:
                return None, 'inner moment LP of an expectation constraint failed'
            if abs(wr[0]) <= 1e-6:
                eact += 1
            if sg * wr[0] <= tol:
                continue
            coef = np.zeros(nv)
            const = 0.0
            for s in range(S):
                for w, wt in zip(atoms_by[a][s], wr[1][s]):
                    if wt <= 0:
                        continue
                    best = None
                    for r in row_pieces(row0):
                        cc = np.zeros(nv)
                        cc[:nx] = r['a0']
                        if ny:
                            cc += np.array(r['b']) @ ycoef(s, w)
                        k0 = float(np.array(r['c']) @ w + r['c0'])
                        valp = cc @ v + k0
                        if best is None or (valp > best[0] if sg > 0 else valp < best[0]):
                            best = (valp, cc, k0)
                    coef += wt * best[1]
                    const += wt * best[2]
            A_ub.append(sg * coef); b_ub.append(-sg * const)
            ecut += 1
        if cuts and ecut == 0 and gap <= tol * (1 + abs(val)):
            if not accept_bound and np.any(np.abs(v[nx:T]) > 0.99 * B):
                return None, 'artificial bound active'
            return float(val), {'rounds': rnd + 1, 'x': x, 'y0': y0, 'Y': Y, 'p': p, 'erow_active': eact}
        coef = np.zeros(nv)
        const = 0.0
        for s in range(S):
            for w, wt in zip(atoms[s], wts[s]):
                if wt <= 0:
                    continue
                best = None
                for pc in case['obj']['pieces']:
                    cc, k0 = piece_coef(pc, s, w)
                    valp = cc @ v + k0
                    if best is None or (valp > best[0] if sign > 0 else valp < best[0]):
                        best = (valp, cc, k0)
                coef += wt * best[1]
                const += wt * best[2]
        row = sign * coef
        row[T] = -1.0
        A_ub.append(row); b_ub.append(-sign * const)
        cuts += 1
    return None, 'cutting planes did not converge'


def centre_value(case, x, y0, Y):
    """expected objective under the centre distribution (support centres, p-hat)"""
    S = case['S']
    pr = case['prob']
    ph = np.array(pr.get('p') or pr.get('phat') or [1.0 / S] * S) if pr['t'] != 'box' else \
        (np.array(pr['lo']) + np.array(pr['hi'])) / 2
    ph = ph / ph.sum()
    return float(sum(ph[s] * integrand(case, x, y0[s], Y[s], support_centre(case['supports'][s])) for s in range(S)))
