"""C10 - only convex uses of convex/concave expressions are accepted, and accepted ones mean what was written."""
import numpy as np
from hypothesis import strategies as st

from vf.core import Prop, Outcome
from vf import detmodel
from vf.quiet import quiet

SCALARS = [2.0, 0.5, -1.0, -3.0, 0.0, 3.0]
ATOM_NAMES = list(detmodel.ATOMS)


@st.composite
def c10_case(draw):
    if draw(st.integers(0, 11)) == 0:
        return {'kind': 'bilinear', 'which': draw(st.sampled_from(['dd_mul', 'dd_matmul', 'rr_mul', 'rr_matmul', 'ldr_r_mul',
                                                                    'ldr_r_matmul', 'dro_adapt_r_mul', 'dro_adapt_r_matmul',
                                                                    'dd_sub_mul', 'rr_sub_mul', 'dro_adaptslice_r_mul', 'dro_adaptslice_r_matmul',
                                                                    'dro_adapt_derived', 'dro_adapt_derived', 'ldr_derived', 'ldr_derived'])),
                'derived': draw(st.sampled_from(['sum', 'sum_axis', 'neg', 'scale', 'add_const', 'add_static', 'slice', 'index_list', 'reshape',
                                                 'T', 'flatten', 'ones_matmul', 'rsub', 'concat', 'sum_of_entries'])),
                'n': draw(st.integers(1, 3)), 'use': draw(st.sampled_from(['constr', 'constr', 'obj'])),
                'front': draw(st.sampled_from(['ro', 'dro']))}
    if draw(st.integers(0, 5)) == 0:
        return draw(pw_case())
    n = draw(st.integers(1, 3))
    name = draw(st.sampled_from(ATOM_NAMES))
    curv, res, dom, layer = detmodel.ATOMS[name]
    k = 1 if res == 'elem' else draw(st.integers(2, 3))
    M = [detmodel._row(draw, n) for _ in range(k)]
    target = [draw(st.sampled_from([0.5, 1.0, 2.0] if dom == 'pos' else [-1.0, 0.0, 0.5, 1.0, 2.0])) for _ in range(k)]
    x0 = [float(draw(st.integers(-2, 2))) for _ in range(n)]
    a = {'atom': name, 'M': M, 'v': list(np.array(target) - np.array(M) @ np.array(x0)), 'kappa': 1.0, 'spell': draw(st.integers(0, 5))}
    if name == 'pnorm':
        a['p'] = draw(st.sampled_from([3, [3, 2], 2.5]))
    if name == 'power':
        a['p'], a['q'] = draw(st.sampled_from([(2, 1), (3, 1), (3, 2)]))
    if name == 'gmean':
        a['beta'] = [draw(st.integers(1, 2)) for _ in range(k)]
    if name == 'quad':
        L = np.array([[draw(st.sampled_from([-1.0, 1.0, 2.0])) if j <= i else 0.0 for j in range(k)] for i in range(k)])
        Q = L @ L.T
        a['nsd'] = draw(st.booleans())
        a['Q'] = (-Q if a['nsd'] else Q).tolist()
    if name in ('pexp', 'plog'):
        srow = detmodel._row(draw, n, 0.4) if draw(st.booleans()) else [0.0] * n
        a['sM'] = [srow]
        a['sv'] = [draw(st.sampled_from([0.5, 1.0, 2.0])) - float(np.array(srow) @ np.array(x0))]
    nsteps = draw(st.integers(0, 5))
    chain = []
    for _ in range(nsteps):
        op = draw(st.sampled_from(['mul', 'mul', 'neg', 'add', 'sub', 'rsub']))
        if op == 'mul':
            chain.append(['mul', draw(st.sampled_from(SCALARS)), draw(st.sampled_from(['L', 'R']))])
        elif op == 'neg':
            chain.append(['neg'])
        else:
            if draw(st.booleans()):
                aff = {'r': [0.0] * n, 'r0': float(draw(st.integers(-2, 2))), 'const': True,
                       'np': draw(st.booleans())}
            else:
                aff = {'r': detmodel._row(draw, n, 0.5), 'r0': float(draw(st.integers(-2, 2))), 'const': False}
            chain.append([op, aff, draw(st.sampled_from(['L', 'R']))])
    rhs = {'r': detmodel._row(draw, n, 0.5) if draw(st.booleans()) else [0.0] * n, 'r0': float(draw(st.integers(-3, 3)))}
    rhs['const'] = not any(rhs['r'])
    samples = [[float(draw(st.integers(-2, 2))) + draw(st.sampled_from([0.0, 0.5])) for _ in range(n)] for _ in range(3)]
    return {'kind': 'atom', 'front': draw(st.sampled_from(['ro', 'dro'])), 'n': n, 'atom': a, 'chain': chain,
            'cmp': draw(st.sampled_from(['le', 'ge', 'le', 'ge', 'eq'])), 'flip': draw(st.booleans()), 'rhs': rhs,
            'use': draw(st.sampled_from(['constr', 'constr', 'min', 'max'])), 'samples': samples + [x0]}


def draw_chain(draw, n):
    chain = []
    for _ in range(draw(st.integers(0, 5))):
        op = draw(st.sampled_from(['mul', 'mul', 'neg', 'add', 'sub', 'rsub']))
        if op == 'mul':
            chain.append(['mul', draw(st.sampled_from(SCALARS)), draw(st.sampled_from(['L', 'R']))])
        elif op == 'neg':
            chain.append(['neg'])
        else:
            if draw(st.booleans()):
                aff = {'r': [0.0] * n, 'r0': float(draw(st.integers(-2, 2))), 'const': True, 'np': draw(st.booleans())}
            else:
                aff = {'r': detmodel._row(draw, n, 0.5), 'r0': float(draw(st.integers(-2, 2))), 'const': False}
            chain.append([op, aff, draw(st.sampled_from(['L', 'R']))])
    return chain


@st.composite
def pw_case(draw):
    """piecewise maxima / minima of pieces that are affine in the decisions and in the random variables: under E() in a dro model
    with point supports and fixed probabilities (so the expectation is a finite sum), or as a robust piecewise constraint /
    worst-case objective over a box (ro and dro)"""
    n, nz = draw(st.integers(1, 3)), draw(st.integers(1, 2))
    mode = draw(st.sampled_from(['E', 'E', 'robust']))
    npieces = draw(st.integers(2, 3))
    pieces = [{'a': detmodel._row(draw, n), 'c': [float(draw(st.integers(-2, 2))) for _ in range(nz)], 'c0': float(draw(st.integers(-2, 2)))}
              for _ in range(npieces)]
    if not any(any(pc['c']) for pc in pieces):
        pieces[0]['c'][0] = 1.0
    S = draw(st.integers(1, 3))
    parts = [draw(st.integers(1, 3)) for _ in range(S)]
    rhs = {'r': detmodel._row(draw, n, 0.5) if draw(st.booleans()) else [0.0] * n, 'r0': float(draw(st.integers(-3, 3)))}
    rhs['const'] = not any(rhs['r'])
    return {'kind': 'pw', 'mode': mode, 'front': 'dro' if mode == 'E' else draw(st.sampled_from(['ro', 'dro'])), 'n': n, 'nz': nz,
            'pw': draw(st.sampled_from(['maxof', 'minof'])), 'pieces': pieces, 'chain': draw_chain(draw, n),
            'cmp': draw(st.sampled_from(['le', 'ge', 'le', 'ge', 'eq'])), 'flip': draw(st.booleans()), 'rhs': rhs,
            'use': draw(st.sampled_from(['constr', 'constr', 'min', 'max'])), 'S': S, 'p': [v / sum(parts) for v in parts],
            'zs': [[float(draw(st.integers(-2, 2))) for _ in range(nz)] for _ in range(S)],
            'lo': [float(draw(st.integers(-2, 0))) for _ in range(nz)], 'hi': [float(draw(st.integers(0, 2))) for _ in range(nz)],
            'samples': [[float(draw(st.integers(-2, 2))) + draw(st.sampled_from([0.0, 0.5])) for _ in range(n)] for _ in range(3)]}


# ----------------------------------------------------------------------------- my curvature calculus
def calculus(case):
    """returns (k, gcoef, gconst): expression = k*f(u) + gcoef.x + gconst"""
    n = case['n']
    k, gc, g0 = 1.0, np.zeros(n), 0.0
    for step in case['chain']:
        op = step[0]
        if op == 'mul':
            c = step[1]
            k, gc, g0 = k * c, gc * c, g0 * c
        elif op == 'neg':
            k, gc, g0 = -k, -gc, -g0
        else:
            aff = step[1]
            r, r0 = np.array(aff['r']), aff['r0']
            if op == 'add':
                gc, g0 = gc + r, g0 + r0
            elif op == 'sub':
                gc, g0 = gc - r, g0 - r0
            else:       # rsub: a - e
                k, gc, g0 = -k, r - gc, r0 - g0
    return k, gc, g0


def expected(case):
    """'accept' | 'reject' | 'either' for the use of the final expression"""
    k, gc, g0 = calculus(case)
    base = detmodel.atom_curv(case['atom']) if case['kind'] == 'atom' else ('cvx' if case['pw'] == 'maxof' else 'ccv')   # of f
    if k == 0:
        curv = 'affine'
    else:
        curv = base if k > 0 else ('ccv' if base == 'cvx' else 'cvx')
    use = case['use']
    if use == 'min':
        return 'accept' if curv in ('cvx', 'affine') else 'reject'
    if use == 'max':
        return 'accept' if curv in ('ccv', 'affine') else 'reject'
    cmp_ = case['cmp']
    if cmp_ == 'eq':
        return 'either' if curv == 'affine' else 'reject'
    if curv == 'affine':
        return 'accept'
    return 'accept' if (cmp_ == 'le') == (curv == 'cvx') else 'reject'


def value(case, x):
    """NumPy value of the final expression and of the right-hand side at x"""
    a = case['atom']
    k, gc, g0 = calculus(case)
    u = np.array(a['M']) @ x + np.array(a['v'])
    s = None
    if a['atom'] in ('pexp', 'plog'):
        s = np.array(a['sM']) @ x + np.array(a['sv'])
    with np.errstate(all='ignore'):
        f = float(np.sum(detmodel.atom_value(a, u, s)))
    e = k * f + gc @ x + g0 if k != 0 else gc @ x + g0
    rhs = np.array(case['rhs']['r']) @ x + case['rhs']['r0']
    return float(e), float(rhs)


# ----------------------------------------------------------------------------- RSOME side
def build_expr(case, x):
    e = detmodel._atom_expr(case['atom'], x)

    def aff(a):
        if a.get('const'):
            return np.float64(a['r0']) if a.get('np') else a['r0']
        return np.array(a['r']) @ x + a['r0']
    for step in case['chain']:
        op = step[0]
        if op == 'mul':
            e = step[1] * e if step[2] == 'L' else e * step[1]
        elif op == 'neg':
            e = -e
        elif op == 'add':
            e = aff(step[1]) + e if step[2] == 'L' else e + aff(step[1])
        elif op == 'sub':
            e = e - aff(step[1])
        else:
            e = aff(step[1]) - e
    return e, aff(case['rhs'])


def use_it(case, m, x):
    """hand the expression to the model; raises whatever RSOME raises"""
    e, rhs = build_expr(case, x)
    if case['use'] == 'min':
        m.min(e)
        return
    if case['use'] == 'max':
        m.max(e)
        return
    cmp_, flip = case['cmp'], case['flip']
    if cmp_ == 'le':
        c = (rhs >= e) if flip else (e <= rhs)
    elif cmp_ == 'ge':
        c = (rhs <= e) if flip else (e >= rhs)
    else:
        c = (rhs == e) if flip else (e == rhs)
    m.st(c)


# ----------------------------------------------------------------------------- piecewise of random pieces
def pw_value(case, x, want=None):
    """NumPy value of k*F + g and of the right-hand side at x; F is the expectation of the piecewise function (mode E) or, for
    mode robust, its supremum / infimum over the box as `want` ('sup' | 'inf' of the whole expression) requires; None when that
    extreme value has no closed form (never needed for a convex use)"""
    k, gc, g0 = calculus(case)
    agg = max if case['pw'] == 'maxof' else min
    x = np.asarray(x, dtype=float)
    if case['mode'] == 'E':
        F = sum(p * agg(float(np.array(pc['a']) @ x + np.array(pc['c']) @ np.array(zs) + pc['c0']) for pc in case['pieces'])
                for p, zs in zip(case['p'], case['zs']))
    elif k == 0:
        F = 0.0
    else:
        need_sup = (k > 0) == (want == 'sup')
        if need_sup != (case['pw'] == 'maxof'):
            return None, None
        lo, hi = np.array(case['lo']), np.array(case['hi'])
        vals = []
        for pc in case['pieces']:
            c = np.array(pc['c'])
            ext = np.sum(np.maximum(c * lo, c * hi)) if need_sup else np.sum(np.minimum(c * lo, c * hi))
            vals.append(float(np.array(pc['a']) @ x + pc['c0'] + ext))
        F = agg(vals)
    e = k * F + gc @ x + g0 if k != 0 else gc @ x + g0
    return float(e), float(np.array(case['rhs']['r']) @ x + case['rhs']['r0'])


def pw_model(case):
    from rsome import ro, dro
    nz = case['nz']
    if case['front'] == 'ro':
        m = ro.Model()
        x, z = m.dvar(case['n']), m.rvar(nz)
        return m, x, z, (z >= np.array(case['lo']), z <= np.array(case['hi']))
    if case['mode'] == 'E':
        m = dro.Model(case['S'])
        x, z = m.dvar(case['n']), m.rvar(nz)
        fs = m.ambiguity()
        for s in range(case['S']):
            fs[s].suppset(z == np.array(case['zs'][s]))
        fs.probset(m.p == np.array(case['p']))
        return m, x, z, fs
    m = dro.Model()
    x, z = m.dvar(case['n']), m.rvar(nz)
    fs = m.ambiguity()
    fs.suppset(z >= np.array(case['lo']), z <= np.array(case['hi']))
    return m, x, z, fs


def pw_use(case, m, x, z, zset):
    import rsome as rso
    from rsome import E
    # a piece without random coefficients is written without a random term (every other piece) or with an explicit 0*z
    pcs = [np.array(pc['a']) @ x + np.array(pc['c']) @ z + pc['c0'] if any(pc['c']) or i % 2 else np.array(pc['a']) @ x + pc['c0']
           for i, pc in enumerate(case['pieces'])]
    e = (rso.maxof if case['pw'] == 'maxof' else rso.minof)(*pcs)
    if case['mode'] == 'E':
        e = E(e)

    def aff(a):
        if a.get('const'):
            return np.float64(a['r0']) if a.get('np') else a['r0']
        return np.array(a['r']) @ x + a['r0']
    for step in case['chain']:
        op = step[0]
        if op == 'mul':
            e = step[1] * e if step[2] == 'L' else e * step[1]
        elif op == 'neg':
            e = -e
        elif op == 'add':
            e = aff(step[1]) + e if step[2] == 'L' else e + aff(step[1])
        elif op == 'sub':
            e = e - aff(step[1])
        else:
            e = aff(step[1]) - e
    rhs = aff(case['rhs'])
    if case['use'] in ('min', 'max'):
        if case['front'] == 'ro':
            (m.minmax if case['use'] == 'min' else m.maxmin)(e, zset)
        else:
            (m.minsup if case['use'] == 'min' else m.maxinf)(e, zset)
        return
    cmp_, flip = case['cmp'], case['flip']
    if cmp_ == 'le':
        c = (rhs >= e) if flip else (e <= rhs)
    elif cmp_ == 'ge':
        c = (rhs <= e) if flip else (e >= rhs)
    else:
        c = (rhs == e) if flip else (e == rhs)
    if case['mode'] == 'robust' and hasattr(c, 'forall'):      # (a comparison may also return a plain bool or a deterministic constraint)
        c = c.forall(zset)
    # a harmless objective (for an expectation constraint it also provides the ambiguity set)
    if case['front'] == 'dro':
        m.minsup(x[0] * 1.0, zset)
    else:
        m.min(x[0] * 1.0)
    m.st(c)


def pw_check(case):
    exp = expected(case)
    k, gc, g0 = calculus(case)
    signchange = sum(1 for s in case['chain'] if s[0] in ('neg', 'rsub') or (s[0] == 'mul' and s[1] < 0))
    labels = ['pw:%s:%s' % (case['mode'], case['pw']), 'front:' + case['front'], 'use:' + case['use'], 'expected:' + exp,
              'steps:%d' % len(case['chain'])] + (['k=0'] if k == 0 else [])
    if case['use'] == 'constr':
        labels.append('cmp:' + case['cmp'] + ('_flipped' if case['flip'] else ''))
    nt = len(case['chain']) >= 1 and signchange > 0
    tag = 'E' + case['pw'] if case['mode'] == 'E' else 'robust_' + case['pw']
    m, x, z, zset = pw_model(case)
    try:
        with quiet():
            pw_use(case, m, x, z, zset)
        raised = None
    except Exception as ex:
        raised = ex
    if exp == 'reject':
        if raised is None:
            return Outcome.fail('unsound_accept:%s:%s' % (tag, case['use'] if case['use'] != 'constr' else case['cmp']),
                                'non-convex use accepted: %s*%s(...)+affine used as %s' % (k, tag, case['use'] + ' ' + case['cmp']), labels)
        return Outcome.ok(nt, labels + ['rejected:' + type(raised).__name__])
    if raised is not None:
        if exp == 'accept':
            labels.append('over_rejected:%s:%s' % (tag, type(raised).__name__))
        return Outcome.ok(False, labels)
    checked = 0
    for xs in case['samples']:
        xs = np.array(xs)
        want = 'sup' if (case['use'] == 'min' or (case['use'] == 'constr' and case['cmp'] == 'le')) else 'inf'
        e, rhs = pw_value(case, xs, want)
        if e is None:
            continue
        m2, x2, z2, zset2 = pw_model(case)
        try:
            with quiet():
                m2.st(x2 == xs)
                pw_use(case, m2, x2, z2, zset2)
                m2.solve(display=False)
        except Exception as ex:
            return Outcome.fail('accepted_then_crashed:%s:%s' % (tag, type(ex).__name__),
                                'accepted expression crashed when compiled/solved: %r' % (ex,), labels)
        sol = m2.solution
        stt = str(getattr(sol, 'status', None))
        feas = sol is not None and sol.x is not None and not np.isnan(sol.objval)
        infeas = stt == '2'
        if not feas and not infeas:
            continue
        if case['use'] in ('min', 'max'):
            if feas:
                got = m2.get()
                if abs(got - e) > 1e-6 * (1 + abs(e)):
                    return Outcome.fail('objective_meaning:%s' % tag, 'objective evaluates to %.8g at pinned x=%s but model.get()=%.8g' % (e, xs.tolist(), got), labels)
                checked += 1
            else:
                return Outcome.fail('objective_meaning:%s' % tag, 'a model with pinned x and this objective is reported infeasible', labels)
            continue
        if case['cmp'] == 'eq':
            continue
        diff = e - rhs
        if abs(diff) < 0.05:
            continue
        truth = (diff <= 0) if case['cmp'] == 'le' else (diff >= 0)
        if truth != feas:
            return Outcome.fail('constraint_meaning:%s' % tag,
                                'written inequality is %s at x=%s (lhs %.6g, rhs %.6g) but the compiled model is %s' % (
                                    truth, xs.tolist(), e, rhs, 'feasible' if feas else 'infeasible'), labels)
        checked += 1
    if checked:
        labels.append('semantic_checked')
    return Outcome.ok(nt and checked > 0, labels)


def new_model(case):
    from rsome import ro, dro
    m = ro.Model() if case['front'] == 'ro' else dro.Model()
    x = m.dvar(case['n'])
    return m, x


def solver_for(case):
    from rsome import eco_solver
    layer = detmodel.atom_layer(case['atom'])
    return (None, 'lp') if layer == 'lp' else (eco_solver, 'conic')


class DerivationUnsupported(Exception):
    """the derived expression itself cannot be built (e.g. RoAffine has no flatten): nothing to judge"""


def bilinear(case):
    """each of these must raise"""
    from rsome import ro, dro
    w = case['which']
    n = case['n']
    if w.startswith('dro') or case['front'] == 'dro' and not w.startswith('ldr'):
        m = dro.Model(2)
        x, y = m.dvar(n), m.dvar(n)
        z, z2 = m.rvar(n), m.rvar(n)
        if w.startswith('dro_adaptslice'):
            x[0].adapt(z)
        elif w.startswith('dro_adapt'):
            x.adapt(z)
    else:
        m = ro.Model()
        x, y = m.dvar(n), m.dvar(n)
        z, z2 = m.rvar(n), m.rvar(n)
        if w.startswith('ldr'):
            x = m.ldr(n)
            x.adapt(z)
    if w.endswith('_derived'):
        # an expression derived from an affinely adaptive decision (dro) / a decision rule (ro) is still adaptive: its product with
        # a random variable must be refused whatever operation produced it
        import rsome as rso
        n2 = max(n, 2)
        if w.startswith('dro'):
            m = dro.Model(2)
            x, y = m.dvar(n2), m.dvar(n2)
            z = m.rvar(n2)
            x.adapt(z)
        else:
            m = ro.Model()
            y = m.dvar(n2)
            z = m.rvar(n2)
            x = m.ldr(n2)
            x.adapt(z)
        d = case.get('derived', 'sum')
        e = {'sum': lambda: x.sum(), 'sum_axis': lambda: x.reshape((1, n2)).sum(axis=0), 'neg': lambda: -x, 'scale': lambda: 2.0 * x,
             'add_const': lambda: x + 1.0, 'add_static': lambda: x + y, 'slice': lambda: x[:1], 'index_list': lambda: x[[0, n2 - 1]],
             'reshape': lambda: x.reshape((n2, 1)), 'T': lambda: x.reshape((1, n2)).T, 'flatten': lambda: x.reshape((1, n2)).flatten(),
             'ones_matmul': lambda: np.ones(n2) @ x, 'rsub': lambda: 1.0 - x, 'concat': lambda: rso.concat((x, y)),
             'sum_of_entries': lambda: x[0] + x[n2 - 1]}[d]
        try:
            e = e()
        except Exception as ex:
            raise DerivationUnsupported(repr(ex))
        size = int(np.prod(e.shape)) if hasattr(e, 'shape') and e.shape != () else 1
        prod = e * z[0]
        if case['use'] == 'obj':
            m.min(prod.sum() if size > 1 else prod)
        else:
            m.st(prod <= 1)
        return m
    if w in ('dd_mul',):
        e = x * y
    elif w == 'dd_matmul':
        e = x @ y
    elif w == 'dd_sub_mul':
        e = x[0] * (y[0] + 1)
    elif w == 'rr_mul':
        e = z * z2
    elif w == 'rr_matmul':
        e = z @ z2
    elif w == 'rr_sub_mul':
        e = z[0] * (2 * z2[0])
    elif w.endswith('r_mul'):
        e = x * z
    else:
        e = x @ z
    if case['use'] == 'obj':
        m.min(e.sum() if hasattr(e, 'sum') and getattr(e, 'size', 1) > 1 else e)
    else:
        m.st(e <= 1)
    return m


ADAPTIVE_ATOMS = {
    # name: (builder of the expression from the adaptive entry v (scalar) and a static pinned w, NumPy value at y, w; curvature)
    'abs': (lambda rso, v, w: abs(v), lambda y, w: abs(y), 'convex'),
    'square': (lambda rso, v, w: rso.square(v), lambda y, w: y ** 2, 'convex'),
    'exp': (lambda rso, v, w: rso.exp(v), lambda y, w: np.exp(y), 'convex'),
    'softplus': (lambda rso, v, w: rso.softplus(v), lambda y, w: np.log1p(np.exp(y)), 'convex'),
    'norm1': (lambda rso, v, w: rso.norm(rso.concat((v, w)), 1), lambda y, w: abs(y) + abs(w), 'convex'),
    'norm2': (lambda rso, v, w: rso.norm(rso.concat((v, w))), lambda y, w: float(np.hypot(y, w)), 'convex'),
    'norminf': (lambda rso, v, w: rso.norm(rso.concat((v, w)), 'inf'), lambda y, w: max(abs(y), abs(w)), 'convex'),
    'sumsqr': (lambda rso, v, w: rso.sumsqr(rso.concat((v, w))), lambda y, w: y ** 2 + w ** 2, 'convex'),
    'maxof': (lambda rso, v, w: rso.maxof(v, 2 * v - 1, w), lambda y, w: max(y, 2 * y - 1, w), 'convex'),
    'log': (lambda rso, v, w: rso.log(v + 4), lambda y, w: np.log(y + 4), 'concave'),
    'offset:abs': (lambda rso, v, w: abs(w) + v, lambda y, w: abs(w) + y, 'convex'),
    'offset:exp': (lambda rso, v, w: rso.exp(w) + v, lambda y, w: np.exp(w) + y, 'convex'),
    'offset:norm2': (lambda rso, v, w: rso.norm(rso.concat((w, w))) - v, lambda y, w: np.sqrt(2) * abs(w) - y, 'convex'),
    'scale:pexp': (lambda rso, v, w: rso.pexp(w, v + 4), lambda y, w: (y + 4) * np.exp(w / (y + 4)), 'convex'),
    'arg:pexp': (lambda rso, v, w: rso.pexp(v, w + 3), lambda y, w: (w + 3) * np.exp(y / (w + 3)), 'convex'),
}


def adaptive_atom(case):
    """a convex / concave atom of an affinely adaptive dro decision y(z) = a + b z over z in [-1, 1]: either refused, or the
    constraint atom(y(z)) <= t has to hold for every z (minimal t = max over the two end points, the atom being convex)"""
    import rsome as rso
    from rsome import dro
    a, b, wv = case['a'], case['b'], case['w']
    build, value, curv = ADAPTIVE_ATOMS[case['atom']]
    labels = ['adaptive_atom:' + case['atom'], 'adaptive_atom:how:' + case['how']]
    m = dro.Model(case['S'])
    t, w = m.dvar(), m.dvar()
    y = m.dvar(2)
    z = m.rvar()
    fs = m.ambiguity()
    fs.suppset(z >= -1, z <= 1)
    m.minsup(t, fs)
    if case['how'] == 'whole':
        y.adapt(z)
    else:
        y[0].adapt(z)
    try:
        e = build(rso, y[0], w)
        c = (e <= t) if curv == 'convex' else (e >= -t)
        m.st(c)
    except Exception as ex:
        return Outcome.ok(True, labels + ['adaptive_atom:refused:' + type(ex).__name__])
    m.st(y[0] == a + b * z, w == wv, y[1] == 0)
    with quiet():
        from rsome import eco_solver
        m.solve(eco_solver, display=False)
    sol = m.solution
    if sol is None or sol.x is None or np.isnan(sol.objval) or 'lose' in str(sol.status):
        return Outcome.inconclusive('adaptive_atom_not_solved', labels)
    got = m.get()
    ends = [float(value(a + b * zz, wv)) for zz in (-1.0, 1.0)]
    truth = max(ends) if curv == 'convex' else max(-v for v in ends)
    if got < truth - 2e-4 * (1 + abs(truth)):
        return Outcome.fail('adaptive_atom_not_robust:' + case['atom'].split(':')[0],
                            'dro: %s of the affinely adaptive decision y(z) = %g %+g z was accepted; minimising t subject to it gives %.6g, but the '
                            'constraint needs t >= %.6g at an end point of z in [-1, 1] (the slope of the decision is ignored)' % (
                                case['atom'], a, b, got, truth), labels)
    return Outcome.ok(True, labels + ['adaptive_atom:accepted_and_robust'])


class C10(Prop):
    id = 'C10'
    rule = ('atom (every convex/concave atom incl. perspectives, piecewise max/min, summed exp/log; ro and dro; one case in six: maxof/minof of '
            'pieces affine in decisions and random variables, under E() in a dro model with point supports and fixed probabilities, or as '
            'a robust piecewise constraint / worst-case objective over a box in ro and dro) x a chain of 0-5 '
            'steps from {scale by 2, 0.5, -1, -3, 0, 3 from the left or right; negate; add / subtract a constant (Python or NumPy '
            'scalar) or an affine expression from the left or right; reversed subtraction} x comparison (<=, >=, == with the other '
            'side on either side) or use as min/max objective; plus bilinear products (decision x decision, random x random, LDR x '
            'random, affinely adaptive dro decision x random, and products of a random variable with an expression derived from an adaptive '
            'decision / decision rule by 15 operations: sum, axis sum, negation, scaling, offsets, slices, index lists, reshape, T, flatten, ones@, concat). Oracle: an independent curvature calculus over k*f + g gives the '
            'expected accept/reject; expected reject => RSOME must raise by the time st()/min()/max() returns; accepted => the '
            'compiled model with the variables pinned at sample points must be feasible exactly when the written inequality holds '
            'under NumPy (margin 0.05; for random pieces: the finite-sum expectation, or the closed-form sup/inf over the box), and an accepted objective must evaluate to the NumPy value. Over-rejection is counted, not '
            'a violation. Non-trivial = chain of >= 2 steps containing a sign change (negative scale, negation or reversed '
            'subtraction), or a bilinear case; distinct by IR hash.')
    assumptions = ['feasibility of pinned models decided by HiGHS (LP) or ECOS (statuses Optimal / Primal infeasible; anything else is inconclusive)',
                   'sample points closer than 0.05 to the boundary of the written inequality or outside the atom\'s domain are not used']

    def examples(self, tier):
        return 6000 if tier == 'quick' else 200000

    def strategy(self, tier):
        return c10_case()

    def check(self, case):
        if case['kind'] == 'bilinear':
            labels = ['bilinear:' + case['which'] + (':' + case.get('derived', '') if case['which'].endswith('_derived') else ''), 'use:' + case['use']]
            try:
                with quiet():
                    m = bilinear(case)
            except DerivationUnsupported:
                return Outcome.ok(False, labels + ['derivation_unsupported'])
            except Exception as ex:
                return Outcome.ok(True, labels + ['raised:' + type(ex).__name__])
            return Outcome.fail('bilinear_accepted:' + case['which'] + (':' + case.get('derived', '') if case['which'].endswith('_derived') else ''), 'a bilinear product (%s%s) was accepted as %s' % (case['which'], ' via ' + case.get('derived', '') if case['which'].endswith('_derived') else '', case['use']), labels)
        if case['kind'] == 'pw':
            return pw_check(case)
        if case['kind'] == 'adaptive_atom':
            return adaptive_atom(case)
        exp = expected(case)
        a = case['atom']
        k, gc, g0 = calculus(case)
        signchange = sum(1 for s in case['chain'] if s[0] in ('neg', 'rsub') or (s[0] == 'mul' and s[1] < 0))
        labels = ['atom:' + a['atom'], 'front:' + case['front'], 'use:' + case['use'], 'expected:' + exp,
                  'steps:%d' % len(case['chain'])] + (['k=0'] if k == 0 else [])
        if case['use'] == 'constr':
            labels.append('cmp:' + case['cmp'] + ('_flipped' if case['flip'] else ''))
        nt = len(case['chain']) >= 2 and signchange > 0
        m, x = new_model(case)
        try:
            with quiet():
                use_it(case, m, x)
            raised = None
        except Exception as ex:
            raised = ex
        if exp == 'reject':
            if raised is None:
                return Outcome.fail('unsound_accept:%s:%s' % (a['atom'], case['use'] if case['use'] != 'constr' else case['cmp']),
                                    'non-convex use accepted: %s*%s(...)+affine used as %s' % (k, a['atom'], case['use'] + ' ' + case['cmp']), labels)
            return Outcome.ok(nt, labels + ['rejected:' + type(raised).__name__])
        if raised is not None:
            if exp == 'accept':
                labels.append('over_rejected:%s:%s' % (a['atom'], type(raised).__name__))
            return Outcome.ok(False, labels)
        # accepted: does it mean what was written?
        solver, kind = solver_for(case)
        checked = 0
        for xs in case['samples']:
            xs = np.array(xs)
            if not detmodel.in_domain(a, xs, 0.05):
                continue
            e, rhs = value(case, xs)
            if not np.isfinite(e):
                continue
            m2, x2 = new_model(case)
            try:
                with quiet():
                    m2.st(x2 == xs)
                    use_it(case, m2, x2)
                    if case['use'] == 'constr':
                        m2.min(x2[0] * 1)
                    m2.solve(solver, display=False)
            except Exception as ex:
                return Outcome.fail('accepted_then_crashed:%s:%s' % (a['atom'], type(ex).__name__),
                                    'accepted expression crashed when compiled/solved: %r' % (ex,), labels)
            sol = m2.solution
            stt = str(getattr(sol, 'status', None))
            feas = sol is not None and sol.x is not None and not np.isnan(sol.objval) and 'lose' not in stt
            infeas = (kind == 'lp' and stt == '2') or (kind == 'conic' and stt == 'Primal infeasible')
            if not feas and not infeas:
                continue
            if case['use'] in ('min', 'max'):
                if feas:
                    got = m2.get()
                    if abs(got - e) > 1e-4 * (1 + abs(e)):
                        return Outcome.fail('objective_meaning:%s' % a['atom'],
                                            'objective evaluates to %.8g at pinned x=%s but model.get()=%.8g' % (e, xs.tolist(), got), labels)
                    checked += 1
                continue
            diff = e - rhs
            if abs(diff) < 0.05:
                continue
            truth = (diff <= 0) if case['cmp'] == 'le' else (diff >= 0) if case['cmp'] == 'ge' else False
            if case['cmp'] == 'eq':
                continue
            if truth != feas:
                return Outcome.fail('constraint_meaning:%s' % a['atom'],
                                    'written inequality is %s at x=%s (lhs %.6g, rhs %.6g) but the compiled model is %s' % (
                                        truth, xs.tolist(), e, rhs, 'feasible' if feas else 'infeasible'), labels)
            checked += 1
        if checked:
            labels.append('semantic_checked')
        return Outcome.ok(nt and checked > 0, labels)


    def run_enumerations(self, tier, seed):
        """the whole catalogue of bilinear products (finite): every pattern x use x size, derived expressions x 15 operations"""
        from vf.core import case_hash
        plain = ['dd_mul', 'dd_matmul', 'rr_mul', 'rr_matmul', 'ldr_r_mul', 'ldr_r_matmul', 'dro_adapt_r_mul', 'dro_adapt_r_matmul',
                 'dd_sub_mul', 'rr_sub_mul', 'dro_adaptslice_r_mul', 'dro_adaptslice_r_matmul']
        ops = ['sum', 'sum_axis', 'neg', 'scale', 'add_const', 'add_static', 'slice', 'index_list', 'reshape', 'T', 'flatten', 'ones_matmul',
               'rsub', 'concat', 'sum_of_entries']
        cases = [{'kind': 'bilinear', 'which': w, 'n': n, 'use': use, 'front': fr, 'derived': 'sum'}
                 for w in plain for n in (1, 2, 3) for use in ('constr', 'obj') for fr in ('ro', 'dro')]
        cases += [{'kind': 'bilinear', 'which': w, 'n': 2, 'use': use, 'front': 'dro' if w.startswith('dro') else 'ro', 'derived': d}
                  for w in ('dro_adapt_derived', 'ldr_derived') for d in ops for use in ('constr', 'obj')]
        cases += [{'kind': 'adaptive_atom', 'atom': at, 'a': a, 'b': b, 'w': 0.5, 'how': how, 'S': S}
                  for at in sorted(ADAPTIVE_ATOMS) for (a, b) in ((1.0, 3.0), (-0.5, -2.0)) for how in ('whole', 'entry') for S in (1, 2)]
        failures, labels, nt, samples, herrs = [], {}, [], [], []
        for case in cases:
            out = core_safe(self, case)
            if out.status == 'harness_error' and len(herrs) < 3:
                herrs.append({'msg': out.msg, 'case': case})
            for lb in out.labels:
                if lb.startswith(('raised:', 'derivation_unsupported', 'adaptive_atom:refused', 'adaptive_atom:accepted', 'inconclusive')):
                    labels['enum:' + lb] = labels.get('enum:' + lb, 0) + 1
            if out.status == 'fail':
                if not any(f['bucket'] == 'enum:' + out.bucket for f in failures):
                    failures.append({'bucket': 'enum:' + out.bucket, 'msg': out.msg, 'case': case, 'index': -1, 'shard': 0, 'count': 1})
            elif out.nontrivial:
                nt.append(case_hash(case))
                if len(samples) < 2:
                    samples.append(case)
        labels['enumerated_bilinear_cases'] = len(cases)
        return {'evaluations': len(cases), 'labels': labels, 'failures': failures, 'harness_errors': herrs, 'nt_hashes': nt, 'samples': samples,
                'coverage': {'exhaustive_bilinear_catalogue': '%d cases (incl. %d convex / concave atoms of an affinely adaptive dro decision)' % (
                    len(cases), sum(1 for c in cases if c['kind'] == 'adaptive_atom'))}}


def core_safe(prop, case):
    from vf.core import safe_check
    return safe_check(prop, case)


PROP = C10()
