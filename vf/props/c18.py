"""C18 - soc_solve approximates exponential cones accurately and changes nothing else."""
import numpy as np
from hypothesis import strategies as st

from vf.core import Prop, Outcome
from vf import detmodel
from vf.quiet import quiet

EXPATOMS = ['exp', 'log', 'pexp', 'plog', 'softplus', 'entropy', 'sumexp', 'sumlog']
GRID = [round(-4 + 0.5 * i, 2) for i in range(17)]


@st.composite
def pin_case(draw):
    """one exp-cone atom with pinned argument; exponents inside [-4, 4]"""
    name = draw(st.sampled_from(EXPATOMS + ['expcone']))
    degree = draw(st.sampled_from([4, 4, 5, 6, 7, 8]))
    solver = draw(st.sampled_from(['eco', 'grb']))
    if name == 'expcone':
        z = draw(st.sampled_from([0.5, 1.0, 2.0, 8.0, 20.0]))       # large scales: the cut-off rows are relative to z
        e = draw(st.sampled_from(GRID))
        # user-supplied cut-off values that contain the exponent (default (-30, 60); asymmetric and tight ones)
        cuts = draw(st.sampled_from([None, None, [-30, 60], [-6, 12], [-(max(-e, 0.0) + 0.5), max(e, 0.0) + 2.0], [-(max(-e, 0.0) + 1.0), 9.0]]))
        return {'mode': 'pin', 'atom': 'expcone', 'z': z, 'x': e * z, 'degree': degree, 'solver': solver, 'cuts': cuts,
                'pos': draw(st.integers(0, 2)), 'front': draw(st.sampled_from(['ro', 'dro']))}
    k = 1 if detmodel.ATOMS[name][1] == 'elem' else draw(st.integers(2, 3))
    expo = [draw(st.sampled_from(GRID)) for _ in range(k)]
    if name == 'softplus':
        # log(1+exp(u)) <= t is exp(u-t) + exp(-t) <= 1: the first exponent is u - t, which leaves [-4, 4] for u = -4
        expo = [max(e, -3.5) for e in expo]
    if name in ('log', 'plog', 'sumlog', 'entropy'):
        u = [float(np.exp(e)) if name != 'entropy' else float(np.exp(-abs(e))) for e in expo]
    else:
        u = list(expo)
    scale = draw(st.sampled_from([0.5, 1.0, 2.0, 8.0, 20.0])) if name in ('pexp', 'plog') else None
    if name == 'pexp':
        u = [e * scale for e in expo]
    if name == 'plog':
        u = [scale * float(np.exp(e)) for e in expo]
    return {'mode': 'pin', 'atom': name, 'u': u, 'scale': scale, 'kappa': draw(st.sampled_from([1.0, 0.5, 3.0])),
            'degree': degree, 'solver': solver, 'pos': draw(st.integers(0, 2)), 'front': draw(st.sampled_from(['ro', 'dro']))}


@st.composite
def model_case(draw):
    c = draw(detmodel.det_case(atom_names=['exp', 'log', 'softplus', 'entropy', 'pexp', 'plog', 'sumexp', 'sumlog', 'norm2', 'abs'],
                               bounded_by='box', max_atoms=3, obj_atom_prob=0.3, cones=['expcone', 'kldiv', 'rsocone'],
                               int_ok=draw(st.integers(0, 5)) == 0))
    c['mode'] = 'model'
    c['hist'] = draw(st.booleans())        # soc_solve, then st(a cut through the solution), then soc_solve again
    c['degree'] = draw(st.sampled_from([4, 4, 5, 6, 8]))
    c['solver'] = draw(st.sampled_from(['eco', 'grb']))
    return c


@st.composite
def c18_case(draw):
    return draw(pin_case()) if draw(st.integers(0, 2)) else draw(model_case())


def get_solver(name):
    from rsome import eco_solver, grb_solver
    return eco_solver if name == 'eco' else grb_solver


def build_pin(case):
    """model with extra linear/SOC rows around the cone (position of the cone inside the program varies)"""
    import rsome as rso
    from rsome import ro, dro
    m = ro.Model() if case['front'] == 'ro' else dro.Model()
    pos = case['pos']
    pre = m.dvar(2) if pos >= 1 else None
    if case['atom'] == 'expcone':
        y, x, z = m.dvar(), m.dvar(), m.dvar()
        post = m.dvar(2) if pos == 2 else None
        if pre is not None:
            m.st(rso.norm(pre) <= 1, pre.sum() >= 0.5)
        m.st(x == case['x'], z == case['z'])
        m.st(rso.expcone(y, x, z))
        obj = 1 * y
        expect = case['z'] * float(np.exp(case['x'] / case['z']))
        sense = 'min'
    else:
        name = case['atom']
        k = len(case['u'])
        xv = m.dvar(k)
        t = m.dvar()
        post = m.dvar(2) if pos == 2 else None
        if pre is not None:
            m.st(rso.norm(pre) <= 1, pre.sum() >= 0.5)
        m.st(xv == np.array(case['u']))
        a = {'atom': name, 'M': np.eye(k).tolist(), 'v': [0.0] * k, 'spell': 0}
        if name in ('pexp', 'plog'):
            a['sM'] = [[0.0] * k]
            a['sv'] = [case['scale']]
        f = detmodel._atom_expr(a, xv)
        kap = case['kappa']
        cvx = detmodel.ATOMS[name][0] == 'cvx'
        val = float(np.sum(detmodel.atom_value(a, np.array(case['u']), case['scale'])))
        if cvx:
            m.st(kap * f <= t)
            sense = 'min'
        else:
            m.st(kap * f >= t)
            sense = 'max'
        obj = 1 * t
        expect = kap * val
    if post is not None:
        m.st(abs(post) <= 1, post[0] + post[1] >= 0.5)
        if pre is not None:
            obj = obj + 0 * pre[0]
    (m.min if sense == 'min' else m.max)(obj)
    return m, expect


def check_prefix(f, g):
    """to_socp() must leave the original rows, bounds and types as an unchanged prefix"""
    m, n = f.linear.shape
    if g.linear.shape[0] < m or g.linear.shape[1] < n:
        return 'the approximated program is smaller than the original'
    if (abs(g.linear[:m, :n] - f.linear)).nnz != 0:
        return 'original rows were changed'
    if g.linear[:m, n:].nnz != 0:
        return 'original rows got coefficients on the new columns'
    if not np.array_equal(g.const[:m], f.const) or not np.array_equal(g.sense[:m], f.sense):
        return 'original right-hand sides / senses were changed'
    if not np.array_equal(g.ub[:n], f.ub) or not np.array_equal(g.lb[:n], f.lb):
        return 'original bounds were changed'
    if list(g.vtype[:n]) != list(f.vtype):
        return 'original variable types were changed'
    if any(t != 'C' for t in g.vtype[n:]):
        return 'a new column is not continuous'
    if not np.array_equal(np.asarray(g.obj[:n], dtype=float), np.asarray(f.obj, dtype=float).ravel()) or np.any(np.asarray(g.obj[n:]) != 0):
        return 'the objective vector was changed'
    if len(g.xmat):
        return 'exponential cones remain after to_socp()'
    return None


GRB_TIGHT = {'BarQCPConvTol': 1e-10, 'BarConvTol': 1e-10, 'FeasibilityTol': 1e-9, 'OptimalityTol': 1e-9}


def solver_params(case):
    """Gurobi's default cone tolerances (1e-6) are amplified by the squaring tower of the approximation (2**degree): the
    approximation error is measured with tight solver tolerances"""
    return dict(GRB_TIGHT) if case['solver'] == 'grb' else {}


def bracket(f, eps):
    """optima (formula objective values) of the exact exp-cone program with every exponential cone relaxed / tightened by the
    relative amount eps: y*(1+eps) >= z*exp(x/z) and y*(1-eps) >= z*exp(x/z). An approximation whose per-cone relative error is
    at most eps has its optimum between the two. Returns (lo, hi); None where ECOS does not solve the perturbed program."""
    import copy
    from rsome import eco_solver
    ycols = sorted(set(int(e[1]) for e in f.xmat))
    others = set(int(e[0]) for e in f.xmat) | set(int(e[2]) for e in f.xmat)
    if others & set(ycols):
        return None, None
    out = []
    for sc in (1 + eps, 1 - eps):
        f2 = copy.copy(f)
        L = f.linear.tocsc(copy=True).astype(float)
        for j in ycols:
            L.data[L.indptr[j]:L.indptr[j + 1]] /= sc
        f2.linear = L.tocsr()
        f2.obj = np.array(f.obj, dtype=float).copy()
        f2.obj[..., ycols] = f2.obj[..., ycols] / sc
        f2.lb, f2.ub = np.array(f.lb, dtype=float).copy(), np.array(f.ub, dtype=float).copy()
        f2.lb[ycols] *= sc
        f2.ub[ycols] *= sc
        with quiet():
            try:
                r = eco_solver.solve(f2, display=False)
            except Exception:
                r = None
        ok = r is not None and r.x is not None and not np.isnan(r.objval) and 'lose' not in str(r.status)
        out.append(float(r.objval) if ok else None)
    return out[0], out[1]


class C18(Prop):
    id = 'C18'
    rule = ('(pin) every exp-cone atom (exp, log, pexp, plog, softplus, entropy, summed exp/log, expcone) with its argument pinned so '
            'that the exponent x/z lies on the grid -4(0.5)4, the cone placed before/between/after other linear and SOC rows, '
            'degrees 4-8, ECOS and Gurobi as SOC interfaces, ro and dro: soc_solve optimum vs the closed form. (model) generated '
            'box-bounded models mixing exp-cone atoms, expcone/kldiv/rsocone constraints, SOC and LP atoms, sometimes integer '
            'columns: exact optimum by ECOS on the exp-cone program vs soc_solve, compared when every cone of the exact solution has '
            '|x/z| <= 4; relative error must be <= 1e-3 (+solver tolerance) at every degree >= 4. In both families to_socp() must '
            'leave rows, senses, constants, bounds, types and objective of the original program as an unchanged prefix, and solve() '
            'after soc_solve() must still return the exact optimum; in half of the generated models a cut through the solution is added after soc_solve() and the next soc_solve() must agree with a fresh build. Non-trivial = |exponent| > 2 or the cone is not the only '
            'constraint; distinct by IR hash.')
    assumptions = ['exact reference = closed form (pin) or ECOS exp-cone optimum (model); comparison skipped when a solver fails',
                   'relative error budget 1e-3 + 2e-4 solver tolerance (observed at degree 4: about 1.7e-4)',
                   'Gurobi runs with cone/feasibility tolerances 1e-9..1e-10 (its defaults of 1e-6 are amplified 2**degree times by the squaring tower: 1.5e-3 at degree 8)',
                   'generated models: an optimum outside the budget is a violation only if it also lies outside the bracket spanned by the exact program with all exponential cones relaxed / tightened by 1.3e-3 (badly conditioned programs amplify the per-cone error)']

    def examples(self, tier):
        return 1600 if tier == 'quick' else 40000

    def strategy(self, tier):
        return c18_case()

    def check(self, case):
        from rsome import eco_solver
        solver = get_solver(case['solver'])
        deg = case['degree']
        labels = ['mode:' + case['mode'], 'degree:%d' % deg, 'solver:' + case['solver'], 'front:' + case['front']]
        if case['mode'] == 'pin':
            labels.append('atom:' + case['atom'])
            m, expect = build_pin(case)
            with quiet():
                f = m.do_math()
                nq, nx = len(f.qmat), len(f.xmat)
                g = f.to_socp(deg)
            msg = check_prefix(f, g)
            if msg:
                return Outcome.fail('prefix', 'to_socp(): ' + msg, labels)
            if len(f.qmat) != nq or len(f.xmat) != nx:
                return Outcome.fail('mutated_formula', 'to_socp() changed the cached formula (%d->%d cones, %d->%d exp cones)' % (nq, len(f.qmat), nx, len(f.xmat)), labels)
            kw = {}
            if case.get('cuts'):
                kw['cuts'] = tuple(case['cuts'])
                labels.append('cuts:user')
            try:
                with quiet():
                    m.soc_solve(solver, degree=deg, display=False, params=solver_params(case), **kw)
            except Exception as ex:
                if 'size-limited' in str(ex):
                    return Outcome.skip('gurobi_size_limit', labels)
                raise
            sol = m.solution
            if sol is None or sol.x is None or np.isnan(sol.objval) or 'lose' in str(sol.status):
                if case.get('cuts'):
                    # the pinned exponent lies inside the user's cut-off range, so the approximating program is feasible: two
                    # interfaces calling it infeasible is a verdict on the program, not a solver failure
                    from rsome import eco_solver, grb_solver
                    verdicts = []
                    with quiet():
                        g2 = m.do_math().to_socp(deg, tuple(case['cuts']))
                        for sv in (eco_solver, grb_solver):
                            try:
                                s2 = sv.solve(g2, display=False)
                                verdicts.append(str(getattr(s2, 'status', None)))
                            except Exception as ex:      # noqa
                                verdicts.append('error')
                    if 'nfeasible' in verdicts[0] and verdicts[1] in ('3', '4'):
                        return Outcome.fail('cuts:infeasible', 'soc_solve(cuts=%r) with the exponent %g inside the cut-off range: ECOS and Gurobi both report '
                                            'the approximating program infeasible' % (tuple(case['cuts']), case['x'] / case['z']), labels)
                return Outcome.skip('soc_not_solved', labels)
            val = m.get()
            from vf.props.c11 import check_formula
            if len(sol.x) == g.linear.shape[1] and check_formula(g, sol.x, 1e-5) is not None:
                return Outcome.skip('soc_solver_returned_infeasible_point', labels)
            # relative to the magnitude of the terms that are approximated (a sum of logs can cancel to 0)
            if case['atom'] == 'expcone':
                mag = abs(expect)
            else:
                aa = {'atom': case['atom'] if case['atom'] not in ('sumexp', 'sumlog') else case['atom'][3:]}
                terms = np.atleast_1d(detmodel.atom_value(aa, np.array(case['u']), case['scale'])) if case['atom'] != 'entropy' \
                    else -np.array(case['u']) * np.log(np.array(case['u']))
                if case['atom'] in ('log', 'plog', 'sumlog', 'entropy'):
                    # the approximated function is exp: a relative error d in exp is an absolute error d in log
                    terms = np.maximum(np.abs(terms), 1.0)
                mag = case['kappa'] * float(np.sum(np.abs(terms)))
            err = abs(val - expect) / max(mag, 1e-2)
            if err > 1e-3 + 2e-4:
                return Outcome.fail('accuracy:%s' % case['atom'], 'soc_solve (degree %d) gives %.9g, exact value %.9g, relative error %.3g' % (deg, val, expect, err), labels)
            expo = max(abs(np.log(abs(v))) if case['atom'] in ('log', 'sumlog', 'plog', 'entropy') and v > 0 else abs(v)
                       for v in (case.get('u') or [case['x'] / case['z']]))
            return Outcome.ok(expo > 2 or case['pos'] > 0, labels)
        # generated model
        labels += ['atom:' + a['atom'] for a in case['atoms']] + ['cone:' + c['t'] for c in case['cones']]
        has_int = any(t in 'IB' for t in case['vtypes'])
        m, x, pieces = detmodel.build(case)
        detmodel.declare(case, m, x, pieces)
        with quiet():
            f = m.do_math()
            nq, nx = len(f.qmat), len(f.xmat)
            g = f.to_socp(deg)
        msg = check_prefix(f, g)
        if msg:
            return Outcome.fail('prefix', 'to_socp(): ' + msg, labels)
        if len(f.qmat) != nq or len(f.xmat) != nx:
            return Outcome.fail('mutated_formula', 'to_socp() changed the cached formula (%d->%d cones, %d->%d exp cones)' % (nq, len(f.qmat), nx, len(f.xmat)), labels)
        if nx == 0:
            return Outcome.ok(False, labels + ['no_exp_cone'])
        if has_int:
            return Outcome.ok(True, labels + ['integer_structure_only'])
        with quiet():
            m.solve(eco_solver, display=False)
        sol = m.solution
        if sol is None or sol.x is None or np.isnan(sol.objval) or 'lose' in str(sol.status):
            return Outcome.skip('exact_not_solved', labels)
        exact = m.get()
        exact_obj = float(sol.objval)
        xs = np.asarray(sol.x)
        ratios = []
        for (i0, i1, i2) in f.xmat:
            z = xs[i2]
            if z <= 1e-6:
                ratios.append(np.inf)
            else:
                ratios.append(abs(xs[i0] / z))
        try:
            with quiet():
                m.soc_solve(solver, degree=deg, display=False, params=solver_params(case))
        except Exception as ex:
            if 'size-limited' in str(ex):
                return Outcome.skip('gurobi_size_limit', labels)
            raise
        sol2 = m.solution
        if sol2 is None or sol2.x is None or np.isnan(sol2.objval) or 'lose' in str(sol2.status):
            return Outcome.skip('soc_not_solved', labels)
        approx = m.get()
        approx_obj = float(sol2.objval)
        from vf.props.c11 import check_formula
        if len(sol2.x) == g.linear.shape[1] and check_formula(g, sol2.x, 1e-5) is not None:
            # the cone solver flagged 'optimal' a point that violates the second-order program it was given (seen with ECOS on a
            # degree-8 tower): a solver failure, nothing to learn about the approximation
            return Outcome.skip('soc_solver_returned_infeasible_point', labels)
        if case.get('hist'):
            # history: a constraint added after soc_solve() must be seen by the next soc_solve()
            xs2 = np.array(detmodel.get_x(case, pieces), dtype=float)
            wit = np.array(case['witness'], dtype=float)
            d_ = xs2 - wit
            if np.linalg.norm(d_) > 1e-2:
                rhs = float(d_ @ (xs2 + wit) / 2)
                vals = []
                for fresh in (False, True):
                    if fresh:
                        mm, xx, pp = detmodel.build(case)
                        detmodel.declare(case, mm, xx, pp)
                    else:
                        mm, xx = m, x
                    mm.st(d_ @ xx <= rhs)
                    try:
                        with quiet():
                            mm.soc_solve(solver, degree=deg, display=False, params=solver_params(case))
                    except Exception as ex:
                        if 'size-limited' in str(ex):
                            return Outcome.skip('gurobi_size_limit', labels)
                        raise
                    sh = mm.solution
                    vals.append(None if sh is None or sh.x is None or np.isnan(sh.objval) or 'lose' in str(sh.status) else mm.get())
                labels.append('history')
                if vals[0] is not None and vals[1] is not None and abs(vals[0] - vals[1]) > 2e-4 * (1 + abs(vals[1])):
                    return Outcome.fail('soc_solve_history', 'soc_solve() after st() of a new constraint gives %.9g, a fresh model with the same '
                                        'constraints gives %.9g (before the constraint: %.9g)' % (vals[0], vals[1], approx), labels)
                return Outcome.ok(True, labels)
        with quiet():
            m.solve(eco_solver, display=False)
        again = m.get() if m.solution is not None and m.solution.x is not None and not np.isnan(m.solution.objval) else None
        if again is not None and abs(again - exact) > 1e-5 * (1 + abs(exact)):
            return Outcome.fail('solve_after_soc_solve', 'solve() gave %.9g before and %.9g after soc_solve()' % (exact, again), labels)
        if max(ratios) > 4.0:
            return Outcome.ok(False, labels + ['exponent_out_of_range'])
        err = abs(approx - exact) / max(abs(exact), 1.0)
        if err > 1e-3 + 3e-4:
            # a per-cone relative error eps moves the optimum of a badly conditioned program by much more than eps (e.g. two
            # constraints that are both tight with nearly opposite slopes): the optimum of the approximation has to lie between
            # the optima of the exact program with every cone relaxed / tightened by eps
            lo, hi = bracket(f, 1.3e-3)
            slack = 1.3e-3 * max(abs(exact_obj), 1.0)
            if lo is None:
                return Outcome.inconclusive('the eps-relaxed exact program is not solved: no bracket for the approximation', labels + ['no_bracket'])
            if approx_obj >= lo - slack and (hi is None or approx_obj <= hi + slack):
                return Outcome.ok(False, labels + ['ill_conditioned_within_bracket'])
            return Outcome.fail('accuracy:model', 'soc_solve (degree %d, %s) gives %.9g, exact optimum %.9g (relative error %.3g, max |x/z| %.3g)' % (
                deg, case['solver'], approx, exact, err, max(ratios)), labels)
        return Outcome.ok(True, labels + ['compared'])


PROP = C18()
