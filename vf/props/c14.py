"""C14 - dual() returns valid shadow prices of the user's constraints (certificate identities)."""
import numpy as np
from hypothesis import strategies as st

from vf.core import Prop, Outcome
from vf import detmodel
from vf.quiet import quiet


@st.composite
def c14_case(draw):
    if draw(st.booleans()):
        c = draw(detmodel.det_case(atom_names=[], bounded_by='dual', fronts=('ro',)))
        c['variant'] = 'bounds'
    else:
        # box-bounded with redundant abs / norm rows: auxiliary rows sit between the user rows, their multipliers are
        # zero by complementary slackness, so the certificate over the user's constraints alone must still close
        c = draw(detmodel.det_case(atom_names=['abs', 'norm1', 'norminf'], bounded_by='box', max_atoms=2, fronts=('ro',)))
        c['variant'] = 'aux_rows'
        big = np.array([max(abs(b[1]), abs(b[2])) for b in c['bounds']])
        for a in c['atoms']:
            M, v = np.abs(np.array(a['M'])), np.abs(np.array(a['v']))
            bound = a['kappa'] * float(np.sum(M @ big + v)) + 1.0
            k = len(a['r0'])
            a['o'] = [[0.0] * c['n'] for _ in range(k)]
            a['o0'] = [0.0] * k
            a['r'] = [[0.0] * c['n'] for _ in range(k)]
            a['r0'] = [bound + draw(st.sampled_from([1.0, 2.0]))] * k
    c['order'] = draw(st.integers(0, 2))
    # the model is solved, given one more (slack) constraint and solved again before dual() is read
    c['resolve'] = draw(st.integers(0, 2)) == 0
    return c


def solvers():
    from rsome import grb_solver, eco_solver
    return [('default', None), ('gurobi', grb_solver), ('ecos', eco_solver)]


class C14(Prop):
    id = 'C14'
    rule = ('feasible bounded continuous LPs through the ro front end: array constraints with <=, >=, == in four spellings, bounds '
            'declared on whole arrays, per entry or as rows (each entry at most one lower and one upper bound), all eight bound '
            'patterns, min and max, one or several variable arrays; in half of the cases redundant abs/1-norm/inf-norm constraints '
            'put auxiliary rows between the user rows. Oracle: for each dual-capable interface (default HiGHS, Gurobi, ECOS) the '
            'values of dual() on the returned constraint objects must be shaped like their constraints and satisfy stationarity '
            '(objective gradient = dual-weighted sum of constraint and bound gradients, >= rows read as <= of the negation), strong '
            'duality (dual-weighted right-hand sides = optimum) and the sign pattern of the optimisation direction. Non-trivial = '
            'a non-zero multiplier on a >= / == row or on a bound; distinct by IR hash.')
    assumptions = ['identities hold for every optimal dual solution, so degeneracy cannot raise an alarm; tolerance 1e-6 (HiGHS, Gurobi) / 1e-5 (ECOS) relative',
                   'dro models are not covered (dual() is exposed on the ro front end objects)']

    def examples(self, tier):
        return 3000 if tier == 'quick' else 90000

    def strategy(self, tier):
        return c14_case()

    def check(self, case):
        labels = ['variant:' + case['variant'], 'sense:' + case['obj']['sense'], 'bound_style:' + case['bound_style'], 'decl:' + case['decl']]
        n = case['n']
        c = np.array(case['obj']['c'], dtype=float)
        nt = False
        compared = 0
        for name, solver in solvers():
            m, x, pieces = detmodel.build(case)
            h = detmodel.declare(case, m, x, pieces)
            with quiet():
                m.solve(solver, display=False)
            sol = m.solution
            if sol is None or sol.x is None or np.isnan(sol.objval) or 'lose' in str(sol.status):
                labels.append('unsolved:' + name)
                continue
            if case.get('resolve'):
                # a constraint that is strictly slack at the optimum (multiplier 0): the certificate over the other constraints
                # must still close after the second compilation
                xs = np.asarray(x.get(), dtype=float).ravel()
                m.st(np.ones(n) @ x <= float(np.ceil(xs.sum())) + 10.0)
                with quiet():
                    m.solve(solver, display=False)
                sol = m.solution
                if sol is None or sol.x is None or np.isnan(sol.objval) or 'lose' in str(sol.status):
                    labels.append('unsolved:' + name)
                    continue
                if 'resolved' not in labels:
                    labels.append('resolved')
            opt = m.get()
            tol = 1e-5 if name == 'ecos' else 1e-6
            grad = np.zeros(n)
            rhs_sum = 0.0
            sg = 1.0 if case['obj']['sense'] == 'min' else -1.0
            for ent in h['cert']:
                with quiet():
                    d = ent['c'].dual()
                if d is None:
                    return Outcome.fail('no_dual:' + name, 'dual() returned None for a solved continuous LP (%s)' % name, labels)
                d = np.atleast_1d(np.asarray(d, dtype=float))
                k = len(ent['h'])
                if d.shape != (k,):
                    return Outcome.fail('shape:' + ent['kind'], '%s: dual of a %d-row %s constraint has shape %s' % (name, k, ent['kind'], d.shape), labels)
                if np.any(np.isnan(d)):
                    return Outcome.fail('nan:' + ent['kind'], '%s: dual() returned NaN for a user %s constraint' % (name, ent['kind']), labels)
                scale = 1 + np.max(np.abs(d))
                if ent['kind'] in ('le', 'eq'):
                    grad += np.asarray(ent['G']).T @ d
                    rhs_sum += float(np.asarray(ent['h']) @ d)
                    if ent['kind'] == 'le' and np.any(sg * d > tol * scale):
                        return Outcome.fail('sign:row:' + name, '%s: multiplier %s of a <=-oriented row has the wrong sign for %s' % (name, d.tolist(), case['obj']['sense']), labels)
                    if np.any(np.abs(d) > 1e-7) and ent['kind'] == 'eq':
                        nt = True
                else:
                    finite = np.isfinite(ent['h'])
                    grad[np.array(ent['idx'])[finite]] += d[finite]
                    rhs_sum += float(np.asarray(ent['h'])[finite] @ d[finite])
                    if np.any(np.abs(d[~finite]) > tol):
                        return Outcome.fail('infinite_bound_dual:' + name, '%s: non-zero multiplier on an infinite bound' % name, labels)
                    want = -1.0 if ent['kind'] == 'ub' else 1.0
                    if np.any(-want * sg * d > tol * scale):
                        return Outcome.fail('sign:%s:%s' % (ent['kind'], name), '%s: multiplier %s of a %s constraint has the wrong sign for %s' % (name, d.tolist(), ent['kind'], case['obj']['sense']), labels)
                    if np.any(np.abs(d) > 1e-7):
                        nt = True
            for con in case['lin']:
                pass
            sc = 1 + np.max(np.abs(c)) + np.max(np.abs(grad))
            if np.max(np.abs(grad - c)) > 10 * tol * sc:
                return Outcome.fail('stationarity:' + name, '%s: objective gradient %s but dual-weighted constraint gradients sum to %s' % (name, c.tolist(), np.round(grad, 8).tolist()), labels)
            if abs(rhs_sum - (opt - case['obj']['c0'])) > 10 * tol * (1 + abs(opt) + abs(rhs_sum)):
                return Outcome.fail('strong_duality:' + name, '%s: dual-weighted right-hand sides %.9g but optimum %.9g (constant %.3g)' % (name, rhs_sum, opt, case['obj']['c0']), labels)
            compared += 1
            if any(cn['sense'] == 'ge' for cn in case['lin']):
                labels.append('has_ge')
        if compared == 0:
            return Outcome.skip('not_solved', labels)
        labels.append('interfaces:%d' % compared)
        return Outcome.ok(nt, labels)


PROP = C14()
