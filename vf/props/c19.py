"""C19 - formulation is deterministic and leaves user data untouched."""
import hashlib
import json
import os
import random
import subprocess
import sys

import numpy as np
import scipy.sparse as sp
from hypothesis import strategies as st

from vf.core import Prop, Outcome, ROOT
from vf import detmodel, romodel
from vf.props import c06
from vf.quiet import quiet


@st.composite
def c19_case(draw):
    kind = draw(st.sampled_from(['det', 'det', 'ro', 'data']))
    stage = {'stage_at': draw(st.integers(0, 8)), 'stage_op': draw(st.sampled_from(['primal', 'dual', 'both', 'solve', 'primal']))}
    if kind == 'det':
        c = draw(c06.c06_case())
        c['obj_first'] = draw(st.booleans())      # objective declared before or after the constraints
        return dict(stage, kind='det', det=c)
    if kind == 'ro':
        return dict(stage, kind='ro', ro=draw(romodel.ro_case(max_cons=3)))
    n = draw(st.integers(2, 4))
    return {'kind': 'data', 'n': n, 'dtype': draw(st.sampled_from(['f8', 'f4', 'i8', 'i4'])),
            'readonly': draw(st.booleans()), 'view': draw(st.booleans()), 'sparse': draw(st.booleans()),
            'forder': draw(st.sampled_from(['C', 'F', 'T'])),      # memory layout of 2-D arrays: C, Fortran, transposed view of a C array
            'vals': [draw(st.integers(-3, 3)) for _ in range(n * n + 3 * n)],
            'front': draw(st.sampled_from(['ro', 'dro'])), 'int': draw(st.booleans())}


# ----------------------------------------------------------------------------- formula snapshots
def snap(f):
    d = {'linear': f.linear.toarray().copy(), 'const': np.array(f.const, dtype=float).copy(),
         'sense': np.array(f.sense).copy(), 'vtype': ''.join(f.vtype), 'ub': np.array(f.ub, dtype=float).copy(),
         'lb': np.array(f.lb, dtype=float).copy(), 'obj': np.array(f.obj, dtype=float).ravel().copy(),
         'qmat': [[int(v) for v in q] for q in (getattr(f, 'qmat', []) or [])],
         'xmat': [[int(v) for v in q] for q in (getattr(f, 'xmat', []) or [])]}
    return d


def diff(a, b):
    for k in ('linear', 'const', 'sense', 'ub', 'lb', 'obj'):
        if a[k].shape != b[k].shape:
            return '%s has shape %s vs %s' % (k, a[k].shape, b[k].shape)
        if not np.array_equal(a[k], b[k], equal_nan=True):
            return '%s differs' % k
    for k in ('vtype', 'qmat', 'xmat'):
        if a[k] != b[k]:
            return '%s differs' % k
    return None


def digest(s):
    h = hashlib.sha1()
    for k in ('linear', 'const', 'sense', 'ub', 'lb', 'obj'):
        h.update(np.ascontiguousarray(s[k], dtype=float).tobytes())
        h.update(str(s[k].shape).encode())
    h.update(json.dumps([s['vtype'], s['qmat'], s['xmat']]).encode())
    return h.hexdigest()


def build_model(case):
    if case['kind'] == 'det':
        c = case['det']
        m, x, pieces = detmodel.build(c)
        detmodel.declare(c, m, x, pieces)
        solver, kind = c06.solver_choice(c)
        return m, solver
    c = case['ro']
    m, h = romodel.build(c)
    solver, kind = romodel.pick_solver(c)
    return m, solver


def build_staged(case):
    """the same declarations, but with a formulation (primal / dual / both / a solve) squeezed in before the k-th st() call that
    follows the objective; returns (model, triggered)"""
    from rsome import ro, dro
    at, op = case.get('stage_at', 0), case.get('stage_op', 'primal')
    state = {'n': 0, 'done': False}
    orig = {}

    def wrap(cls):
        orig[cls] = cls.st

        def st_(self, *args, **kw):
            if not state['done'] and getattr(self, 'obj', None) is not None and state['n'] >= at:
                state['done'] = True
                with quiet():
                    if op in ('primal', 'both'):
                        self.do_math()
                    if op in ('dual', 'both'):
                        self.do_math(primal=False)
                    if op == 'solve':
                        self.solve(display=False)
            state['n'] += 1
            return orig[cls](self, *args, **kw)
        cls.st = st_
    for cls in (ro.Model, dro.Model):
        wrap(cls)
    try:
        m, solver = build_model(case)
    finally:
        for cls, f in orig.items():
            cls.st = f
    return m, state['done']


def case_digests(case):
    m, _ = build_model(case)
    with quiet():
        p = snap(m.do_math())
        d = snap(m.do_math(primal=False))
    return digest(p), digest(d)


# ----------------------------------------------------------------------------- user data
def data_model(case):
    """model that consumes user arrays in many positions; returns (model, solver, list of (name, array, copy))"""
    import rsome as rso
    from rsome import ro, dro, eco_solver
    n = case['n']
    dt = {'f8': np.float64, 'f4': np.float32, 'i8': np.int64, 'i4': np.int32}[case['dtype']]
    vals = case['vals']
    reg = []

    def arr(name, data, shape, allow_sparse=False):
        a = np.array(data, dtype=float).reshape(shape).astype(dt)
        if case['view'] and a.ndim:
            big = np.zeros(tuple(2 * d for d in a.shape), dtype=dt)
            sl = tuple(slice(None, None, 2) for _ in a.shape)
            big[sl] = a
            a = big[sl]
        if a.ndim == 2 and case.get('forder', 'C') == 'F':
            a = np.asfortranarray(a)
        elif a.ndim == 2 and case.get('forder', 'C') == 'T':
            a = np.ascontiguousarray(a.T).T
        if allow_sparse and case['sparse'] and a.ndim == 2:
            s = sp.csr_matrix(a.astype(float))
            reg.append((name, s, s.copy()))
            return s
        if case['readonly']:
            a.setflags(write=False)
        reg.append((name, a, a.copy()))
        return a
    A = arr('A', vals[:n * n], (n, n))
    As = arr('A_sparse', vals[:n * n], (n, n), allow_sparse=True)
    b = arr('b', [abs(v) + 1 for v in vals[n * n:n * n + n]], (n,))
    c = arr('c', vals[n * n + n:n * n + 2 * n], (n,))
    lo = arr('lo', [-abs(v) - 1 for v in vals[n * n + 2 * n:n * n + 3 * n]], (n,))
    hi = arr('hi', [abs(v) + 1 for v in vals[n * n + 2 * n:n * n + 3 * n]], (n,))
    Q = arr('Q', (np.array(vals[:n * n], dtype=float).reshape(n, n) @ np.array(vals[:n * n], dtype=float).reshape(n, n).T + np.eye(n)).ravel(), (n, n))   # + I: definite also in float32
    w = arr('w', [1 + abs(v) for v in vals[:n]], (n,))
    m = ro.Model() if case['front'] == 'ro' else dro.Model()
    x = m.dvar(n)
    k = m.dvar(n, 'I') if case['int'] else None
    z = m.rvar(n)
    fset = m.ambiguity() if case['front'] == 'dro' else None
    m.st(x >= lo, x <= hi)
    m.st(A @ x <= b)
    m.st(x @ As <= b + 2)
    m.st(x * c + c <= b + 3)
    m.st(rso.quad(x, Q) <= 50)
    m.st(rso.norm(w * x) <= 10)
    if k is not None:
        m.st(k >= lo, k <= hi, k + x <= hi + 1)
    zset = (abs(z) <= b, rso.norm(A @ z, 1) <= float(np.sum(b)), z >= lo)
    if case['front'] == 'ro':
        m.st(((c * z) @ x + c @ z <= 20).forall(zset))
        m.minmax(c @ x + (z * w) @ x, zset)
    else:
        fset.suppset(*zset)
        m.st((c * z) @ x + c @ z <= 20)
        m.minsup(rso.E(c @ x + (z * w) @ x), fset)
    from rsome import grb_solver
    return m, (grb_solver if k is not None else eco_solver), reg


def unchanged(reg):
    for name, a, cp in reg:
        if sp.issparse(a):
            if (a != cp).nnz or a.dtype != cp.dtype or a.shape != cp.shape:
                return name
        else:
            if a.dtype != cp.dtype or a.shape != cp.shape or a.tobytes() != cp.tobytes():
                return name
    return None


class C19(Prop):
    id = 'C19'
    rule = ('(det / ro) models from the C06 and C01 generators: the model is built twice and the primal and dual standard forms must '
            'be exactly equal field by field; do_math(primal) and do_math(dual) repeated, and solve() repeated, must return equal '
            'programs and the same answer; the same declarations made with a formulation (primal, dual, both, or a solve) squeezed in '
            'before a later st() call must end in the same primal and dual programs (exactly equal, or - unused columns may be left '
            'behind - both solved to the same optimum by HiGHS/ECOS); every field of the formula is snapshotted before solve() and compared afterwards '
            '(in-place edits by solver interfaces); the states of numpy.random and random must be unchanged across formulate+solve. '
            '(data) a model consuming user arrays of dtype float64/float32/int64/int32, C / Fortran / transposed layouts, strided views, read-only arrays and scipy '
            'sparse matrices in bounds, rows, element-wise and matrix products, quad, norm weights, uncertainty/ambiguity sets and '
            'bi-affine terms: every array must be byte-identical after formulation and solve, and read-only arrays must be '
            'accepted. (process) digests of standard forms are recomputed in fresh interpreters with different PYTHONHASHSEED and '
            'must match. Non-trivial = model with integer columns, a cone, or a dual formula with cones; distinct by IR hash.')
    assumptions = ['exact equality of standard forms is required between builds and repetitions; answers of repeated solves within 1e-9 relative',
                   'cross-process comparison runs 32 (quick) / 400 (thorough) cases in fresh interpreters with PYTHONHASHSEED 1..4']

    def examples(self, tier):
        return 1600 if tier == 'quick' else 40000

    def strategy(self, tier):
        return c19_case()

    def check(self, case):
        labels = ['kind:' + case['kind']]
        if case['kind'] == 'data':
            labels += ['dtype:' + case['dtype'], 'front:' + case['front'], 'layout:' + case.get('forder', 'C')] + [k for k in ('readonly', 'view', 'sparse', 'int') if case[k]]
            try:
                with quiet():
                    m, solver, reg = data_model(case)
            except Exception as ex:
                if case['readonly'] and 'read-only' in str(ex):
                    return Outcome.fail('readonly_rejected', 'a read-only user array was written to: %r' % (ex,), labels)
                raise
            bad = unchanged(reg)
            if bad:
                return Outcome.fail('user_array_modified:build:' + bad, 'user array %s was modified while building the model' % bad, labels)
            try:
                with quiet():
                    m.do_math()
                    m.do_math(primal=False)
                    m.solve(solver, display=False)
            except Exception as ex:
                if 'read-only' in str(ex):
                    return Outcome.fail('readonly_rejected', 'a read-only user array was written to: %r' % (ex,), labels)
                raise
            bad = unchanged(reg)
            if bad:
                return Outcome.fail('user_array_modified:solve:' + bad, 'user array %s was modified by formulation/solve' % bad, labels)
            if not case['readonly']:
                # the program is a function of what was declared: overwriting the user's arrays after the declarations (a reused
                # work buffer) must not move the program
                with quiet():
                    m2, solver2, reg2 = data_model(case)
                    for name, a, cp in reg2:
                        if not sp.issparse(a) and a.flags.writeable:
                            a[...] = 7
                    f1, f2 = snap(m.do_math()), snap(m2.do_math())
                msg = diff(f1, f2)
                if msg:
                    return Outcome.fail('program_follows_user_array', 'overwriting the user arrays after the declarations changed the program: ' + msg, labels)
                labels.append('overwrite_after_declaration')
            return Outcome.ok(True, labels)
        st_np = np.random.get_state()
        st_py = random.getstate()
        m, solver = build_model(case)
        with quiet():
            p1 = m.do_math()
            sp1 = snap(p1)
            d1 = snap(m.do_math(primal=False))
        m2, _ = build_model(case)
        with quiet():
            sp2 = snap(m2.do_math())
            d2 = snap(m2.do_math(primal=False))
        msg = diff(sp1, sp2)
        if msg:
            return Outcome.fail('nondeterministic:primal', 'two builds of the same model give different primal programs: ' + msg, labels)
        msg = diff(d1, d2)
        if msg:
            return Outcome.fail('nondeterministic:dual', 'two builds of the same model give different dual programs: ' + msg, labels)
        try:
            m3, staged = build_staged(case)
        except Exception as ex:
            return Outcome.fail('staged:raises', 'the same declarations with an intermediate %s raise %r' % (case.get('stage_op'), ex), labels)
        if staged:
            labels.append('staged:' + case.get('stage_op', 'primal'))
            with quiet():
                fd3 = m3.do_math(primal=False)
                fp3 = m3.do_math()
                fd1 = m.do_math(primal=False)
            for tag, fa, fb, sa, sb in (('primal', p1, fp3, sp1, snap(fp3)), ('dual', fd1, fd3, d1, snap(fd3))):
                if diff(sa, sb) is None:
                    continue
                # an earlier formulation may leave unused columns behind or number auxiliary columns differently: the programs
                # need not be identical then, but they have to be the same problem, so both are solved
                labels.append('staged_form_differs:' + tag)
                conic = bool(sa['qmat'] or sa['xmat'] or sb['qmat'] or sb['xmat'])
                integer = any(t in 'IB' for t in sa['vtype'] + sb['vtype'])
                if conic and integer:
                    continue
                from rsome import eco_solver
                from vf.props.c08 import solve_formula
                ra, rb = solve_formula(fa, eco_solver if conic else None), solve_formula(fb, eco_solver if conic else None)
                oka = ra is not None and ra.x is not None and not np.isnan(ra.objval) and 'lose' not in str(ra.status)
                okb = rb is not None and rb.x is not None and not np.isnan(rb.objval) and 'lose' not in str(rb.status)
                if conic and not (oka and okb):
                    continue
                tolv = 2e-4 if conic else 1e-6
                if oka != okb or (oka and abs(ra.objval - rb.objval) > tolv * (1 + abs(ra.objval))):
                    return Outcome.fail('staged:' + tag, 'the same declarations with an intermediate %s before a later st() give a different %s '
                                        'program (%s): optimum %r instead of %r' % (case.get('stage_op'), tag, diff(sa, sb),
                                                                                    rb.objval if okb else None, ra.objval if oka else None), labels)
        with quiet():
            sp1b = snap(m.do_math())
            d1b = snap(m.do_math(primal=False))
            sp1c = snap(m.do_math())
        msg = diff(sp1, sp1b) or diff(sp1, sp1c)
        if msg:
            return Outcome.fail('repeat:primal', 'do_math() repeated without changes returns a different program: ' + msg, labels)
        msg = diff(d1, d1b)
        if msg:
            return Outcome.fail('repeat:dual', 'do_math(primal=False) repeated without changes returns a different program: ' + msg, labels)
        with quiet():
            m.solve(solver, display=False)
        s1 = m.solution
        after = snap(m.do_math())
        msg = diff(sp1, after)
        if msg:
            return Outcome.fail('solve_edits_formula', 'the formula changed across solve(): ' + msg, labels)
        v1 = None if s1 is None or s1.x is None or np.isnan(s1.objval) else float(s1.objval)
        with quiet():
            m.solve(solver, display=False)
        s2 = m.solution
        v2 = None if s2 is None or s2.x is None or np.isnan(s2.objval) else float(s2.objval)
        if (v1 is None) != (v2 is None) or (v1 is not None and abs(v1 - v2) > 1e-9 * (1 + abs(v1))):
            return Outcome.fail('repeat:solve', 'solve() repeated without changes: %r then %r' % (v1, v2), labels)
        msg = diff(sp1, snap(m.do_math()))
        if msg:
            return Outcome.fail('solve_edits_formula', 'the formula changed across a second solve(): ' + msg, labels)
        s_np = np.random.get_state()
        if not (st_np[0] == s_np[0] and np.array_equal(st_np[1], s_np[1]) and st_np[2:] == s_np[2:]) or st_py != random.getstate():
            return Outcome.fail('rng_consumed', 'global random state changed across formulate+solve', labels)
        nt = ('I' in sp1['vtype'] or 'B' in sp1['vtype'] or bool(sp1['qmat']) or bool(sp1['xmat']) or bool(d1['qmat']))
        if 'I' in sp1['vtype'] or 'B' in sp1['vtype']:
            labels.append('integer')
        if sp1['qmat'] or sp1['xmat']:
            labels.append('conic')
        return Outcome.ok(nt, labels)

    # ---- cross-process part (fresh interpreters, different hash seeds)
    def run_enumerations(self, tier, seed):
        from hypothesis import given, seed as hseed
        from vf import core
        ncases = 32 if tier == 'quick' else 400
        cases = []

        @hseed(seed * 7919 + 5)
        @core._hyp_settings(ncases, False)
        @given(c19_case())
        def collect(c):
            if c['kind'] != 'data':
                cases.append(c)
        collect()
        mine = []
        for c in cases:
            try:
                mine.append(case_digests(c))
            except Exception as ex:
                mine.append(('error', type(ex).__name__))
        payload = json.dumps(cases)
        failures, labels, herrs = [], {}, []
        nproc = 4
        outs = []
        procs = []
        for k in range(nproc):
            env = dict(os.environ)
            env['PYTHONHASHSEED'] = str(k + 1)
            procs.append(subprocess.Popen([sys.executable, '-m', 'vf.props.c19'], stdin=subprocess.PIPE, stdout=subprocess.PIPE,
                                          stderr=subprocess.DEVNULL, env=env, cwd=ROOT))
        for pr in procs:
            out, _ = pr.communicate(payload.encode(), timeout=1500)
            try:
                outs.append(json.loads(out.decode().strip().splitlines()[-1]))
            except Exception as ex:
                herrs.append({'msg': 'cross-process worker produced no digests: %r' % (ex,), 'case': None})
        nt = []
        for k, other in enumerate(outs):
            for i, (a, b) in enumerate(zip(mine, other)):
                if tuple(a) != tuple(b):
                    failures.append({'bucket': 'cross_process_digest', 'msg': 'standard form differs in a fresh interpreter with PYTHONHASHSEED=%d: %s vs %s' % (k + 1, a, b),
                                     'case': cases[i], 'index': -1, 'shard': 0, 'count': 1})
                    break
        labels['cross_process_cases'] = len(cases)
        labels['cross_process_interpreters'] = len(outs)
        return {'evaluations': len(cases) * len(outs), 'labels': labels, 'failures': failures[:1], 'harness_errors': herrs,
                'nt_hashes': [], 'samples': [], 'coverage': {'cross_process_pairs': len(cases) * len(outs)}}


PROP = C19()


if __name__ == '__main__':
    # worker for the cross-process comparison: reads cases (JSON) on stdin, prints digests
    import warnings
    warnings.simplefilter('ignore')
    cs = json.loads(sys.stdin.read())
    res = []
    for c in cs:
        try:
            res.append(list(case_digests(c)))
        except Exception as ex:
            res.append(['error', type(ex).__name__])
    sys.stdout.write('\n' + json.dumps(res) + '\n')
