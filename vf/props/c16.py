"""C16 - exports (.lp text, show() tables) describe exactly the solved program."""
import os
import re
import tempfile

import numpy as np
from hypothesis import strategies as st

from vf.core import Prop, Outcome
from vf import detmodel
from vf.quiet import quiet

NUM = r'(?:[0-9]+\.?[0-9]*(?:[eE][-+]?[0-9]+)?|\.[0-9]+(?:[eE][-+]?[0-9]+)?|inf|infinity)'
TERM = re.compile(r'\s*([+-])?\s*(' + NUM + r')\s+x([0-9]+)')
ODD = [1e-9, 1e-7, 2.5, 1e6, 3.0e15, -1e-9, -2.5e6, 0.1, 1 / 3]


class LPSyntax(Exception):
    pass


def parse_terms(text):
    """'1.0 x1 - 2.5e-07 x3' -> {index: coef}; strict: nothing may be left over"""
    pos = 0
    out = {}
    text = text.strip()
    first = True
    while pos < len(text):
        mt = TERM.match(text, pos)
        if not mt:
            raise LPSyntax('cannot parse linear expression %r at %r' % (text, text[pos:pos + 20]))
        sign, num, idx = mt.groups()
        if sign is None and not first:
            raise LPSyntax('missing sign in %r' % text)
        val = float(num) * (-1.0 if sign == '-' else 1.0)
        j = int(idx) - 1
        if j in out:
            raise LPSyntax('variable x%d repeated in one row' % (j + 1))
        out[j] = val
        pos = mt.end()
        first = False
    return out


def parse_lp(text):
    """strict reader for the subset of the CPLEX LP format that RSOME writes"""
    lines = text.split('\n')
    sec = None
    obj, rows, qrows, bounds, gen, binv = None, [], [], {}, [], []
    ended = False
    for ln in lines:
        s = ln.strip()
        if ended and s:
            raise LPSyntax('text after End: %r' % s)
        if s in ('Minimize', 'Maximize'):
            sec = 'obj'
            if s == 'Maximize':
                raise LPSyntax('unexpected Maximize')
            continue
        if s == 'Subject To':
            sec = 'rows'
            continue
        if s == 'Bounds':
            sec = 'bounds'
            continue
        if s in ('General', 'Generals'):
            sec = 'gen'
            continue
        if s in ('Binary', 'Binaries'):
            sec = 'bin'
            continue
        if s == 'End':
            ended = True
            continue
        if not s:
            continue
        if sec == 'obj':
            mt = re.match(r'obj:(.*)$', s)
            if not mt or obj is not None:
                raise LPSyntax('bad objective line %r' % s)
            obj = parse_terms(mt.group(1))
        elif sec == 'rows':
            mq = re.match(r'q([0-9]+):\s*\[(.*)\]\s*<=\s*0$', s)
            if mq:
                body = mq.group(2)
                items = re.findall(r'([+-])?\s*x([0-9]+)\s*\^2', body)
                rebuilt = re.sub(r'\s+', '', body)
                chk = ''.join(('%sx%s^2' % (sg or '+', j)) for sg, j in items)
                if chk.lstrip('+') != rebuilt.lstrip('+'):
                    raise LPSyntax('bad quadratic row %r' % s)
                neg = [int(j) - 1 for sg, j in items if sg == '-']
                pos = [int(j) - 1 for sg, j in items if sg != '-']
                if len(neg) != 1:
                    raise LPSyntax('quadratic row without exactly one negative square: %r' % s)
                qrows.append((int(mq.group(1)), neg[0], pos))
                continue
            mr = re.match(r'c([0-9]+):(.*?)(<=|=)\s*(-?' + NUM + r')$', s)
            if not mr:
                raise LPSyntax('bad constraint line %r' % s)
            rows.append((int(mr.group(1)), parse_terms(mr.group(2)), mr.group(3), float(mr.group(4))))
        elif sec == 'bounds':
            mb = re.match(r'(-?' + NUM + r')\s*<=\s*x([0-9]+)\s*<=\s*(-?' + NUM + r')$', s)
            if not mb:
                raise LPSyntax('bad bound line %r' % s)
            j = int(mb.group(2)) - 1
            if j in bounds:
                raise LPSyntax('bound repeated for x%d' % (j + 1))
            bounds[j] = (float(mb.group(1)), float(mb.group(3)))
        elif sec in ('gen', 'bin'):
            mv = re.match(r'x([0-9]+)$', s)
            if not mv:
                raise LPSyntax('bad variable name %r' % s)
            (gen if sec == 'gen' else binv).append(int(mv.group(1)) - 1)
        else:
            raise LPSyntax('text outside a section: %r' % s)
    if not ended:
        raise LPSyntax('no End')
    return {'obj': obj or {}, 'rows': rows, 'qrows': qrows, 'bounds': bounds, 'gen': gen, 'bin': binv}


def compare_with_formula(p, f):
    """entry-by-entry comparison of the parsed text with the formula; returns message or None"""
    nv = f.linear.shape[1]
    obj = np.zeros(nv)
    for j, v in p['obj'].items():
        if j >= nv:
            return 'objective mentions x%d but the program has %d columns' % (j + 1, nv)
        obj[j] = v
    if not np.array_equal(obj, np.asarray(f.obj, dtype=float).ravel()):
        return 'objective coefficients differ: file %s, formula %s' % (obj.tolist(), np.asarray(f.obj).ravel().tolist())
    A = f.linear.toarray()
    if len(p['rows']) != A.shape[0]:
        return 'file has %d linear rows, formula has %d' % (len(p['rows']), A.shape[0])
    for k, (num, terms, sense, rhs) in enumerate(p['rows']):
        if num != k + 1:
            return 'row label c%d at position %d' % (num, k + 1)
        row = np.zeros(nv)
        for j, v in terms.items():
            if j >= nv:
                return 'row c%d mentions x%d' % (num, j + 1)
            row[j] = v
        if not np.array_equal(row, A[k]):
            return 'row c%d: file %s, formula %s' % (num, row.tolist(), A[k].tolist())
        if (sense == '=') != bool(f.sense[k]):
            return 'row c%d: sense %r but formula sense %s' % (num, sense, f.sense[k])
        if rhs != float(f.const[k]) and not (rhs == 0 and f.const[k] == 0):
            return 'row c%d: right-hand side %r, formula %r' % (num, rhs, float(f.const[k]))
    qmat = list(getattr(f, 'qmat', []) or [])
    if len(p['qrows']) != len(qmat):
        return 'file has %d quadratic rows, formula has %d cones' % (len(p['qrows']), len(qmat))
    for (num, head, others), qc in zip(p['qrows'], qmat):
        if head != int(qc[0]) or sorted(others) != sorted(int(v) for v in qc[1:]):
            return 'cone q%d: file (head x%d, members %s), formula %s' % (num, head + 1, [o + 1 for o in others], [int(v) + 1 for v in qc])
    for j in range(nv):
        if j not in p['bounds']:
            return 'no bound line for x%d' % (j + 1)
        lo, hi = p['bounds'][j]
        if lo != float(f.lb[j]) or hi != float(f.ub[j]):
            return 'bounds of x%d: file [%r, %r], formula [%r, %r]' % (j + 1, lo, hi, float(f.lb[j]), float(f.ub[j]))
    if sorted(p['gen']) != [j for j in range(nv) if f.vtype[j] == 'I']:
        return 'General section %s does not list the integer columns %s' % (p['gen'], [j for j in range(nv) if f.vtype[j] == 'I'])
    if sorted(p['bin']) != [j for j in range(nv) if f.vtype[j] == 'B']:
        return 'Binary section %s does not list the binary columns %s' % (p['bin'], [j for j in range(nv) if f.vtype[j] == 'B'])
    return None


def compare_show(f):
    """show() frame against the formula data; returns message or None"""
    t = f.show()
    nv = f.linear.shape[1]
    cols = ['x%d' % (j + 1) for j in range(nv)]
    if list(t.columns) != cols + ['sense', 'constant']:
        return 'unexpected columns %s' % list(t.columns)
    A = f.linear.toarray()
    m = A.shape[0]
    qmat = list(getattr(f, 'qmat', []) or [])
    xmat = list(getattr(f, 'xmat', []) or [])
    want = ['Obj'] + ['LC%d' % (i + 1) for i in range(m)] + ['QC%d' % (i + 1) for i in range(len(qmat))] + \
           ['EC%d' % (i + 1) for i in range(len(xmat))] + ['UB', 'LB', 'Type']
    if list(t.index) != want:
        return 'unexpected row labels %s (expected %s)' % (list(t.index), want)
    if not np.array_equal(np.asarray(t.loc['Obj', cols], dtype=float), np.asarray(f.obj, dtype=float).ravel()):
        return 'Obj row differs from the objective vector'
    for i in range(m):
        lab = 'LC%d' % (i + 1)
        if not np.array_equal(np.asarray(t.loc[lab, cols], dtype=float), A[i]):
            return '%s coefficients differ' % lab
        if t.loc[lab, 'sense'] != ('==' if f.sense[i] else '<='):
            return '%s sense %r vs formula %s' % (lab, t.loc[lab, 'sense'], f.sense[i])
        if float(t.loc[lab, 'constant']) != float(f.const[i]):
            return '%s constant %r vs formula %r' % (lab, t.loc[lab, 'constant'], f.const[i])
    for i, qc in enumerate(qmat):
        lab = 'QC%d' % (i + 1)
        row = np.zeros(nv)
        for v in qc[1:]:
            row[int(v)] += 1.0
        row[int(qc[0])] += -1.0
        if not np.array_equal(np.asarray(t.loc[lab, cols], dtype=float), row):
            return '%s does not show the cone %s' % (lab, [int(v) for v in qc])
    for i, xc in enumerate(xmat):
        lab = 'EC%d' % (i + 1)
        row = np.zeros(nv)
        for pos, v in enumerate(xc):
            row[int(v)] += pos + 1
        if not np.array_equal(np.asarray(t.loc[lab, cols], dtype=float), row):
            return '%s does not show the exponential cone %s' % (lab, [int(v) for v in xc])
    if not np.array_equal(np.asarray(t.loc['UB', cols], dtype=float), np.asarray(f.ub, dtype=float)):
        return 'UB row differs'
    if not np.array_equal(np.asarray(t.loc['LB', cols], dtype=float), np.asarray(f.lb, dtype=float)):
        return 'LB row differs'
    if list(t.loc['Type', cols]) != list(f.vtype):
        return 'Type row differs'
    return None


@st.composite
def c16_case(draw):
    mode = draw(st.sampled_from(['solve', 'solve', 'format']))
    fam = draw(st.sampled_from(['lp', 'milp', 'soc', 'misoc']))
    names = ['abs', 'norm1', 'norminf'] if fam in ('lp', 'milp') else ['abs', 'norm2', 'square', 'sumsqr', 'quad', 'pnorm', 'power']
    c = draw(detmodel.det_case(atom_names=names, bounded_by='box' if mode == 'solve' else 'dual', max_atoms=2,
                               int_ok=fam in ('milp', 'misoc'), fronts=('ro', 'dro'),
                               cones=['rsocone'] if fam in ('soc', 'misoc') else False))
    for a in c['atoms']:
        if a['atom'] == 'pnorm' and isinstance(a.get('p'), float):
            a['p'] = 3
    c['mode'], c['fam'] = mode, fam
    if mode == 'format':
        # odd coefficients: formatting is what is tested, the program is not solved
        for con in c['lin']:
            for row in con['A']:
                for j in range(len(row)):
                    if draw(st.integers(0, 2)) == 0:
                        row[j] = draw(st.sampled_from(ODD))
            con['b'] = [draw(st.sampled_from(ODD + [0.0, -0.0, 1e30])) if draw(st.booleans()) else v for v in con['b']]
        if draw(st.booleans()):
            c['lin'].append({'A': [[0.0] * c['n']], 'b': [5.0], 'sense': 'le', 'style': 0})     # empty row
        c['obj']['c'] = [draw(st.sampled_from(ODD + [0.0])) for _ in range(c['n'])]
        # finite bounds that need more than six significant digits
        for b in c['bounds']:
            if b[1] is not None and b[1] != 0 and draw(st.integers(0, 2)) == 0:
                b[1] = -draw(st.sampled_from([1234567.0, 19999.99, 12345.678, 0.1234567891, 7.0000001]))
            if b[2] is not None and b[2] != 0 and draw(st.integers(0, 2)) == 0:
                b[2] = draw(st.sampled_from([1234567.0, 19999.99, 12345.678, 0.1234567891, 7.0000001]))
            if b[0] == 'fix' and b[1] != b[2]:
                b[2] = b[1]
    return c


class C16(Prop):
    id = 'C16'
    rule = ('compiled LP / MILP / SOCP / MISOCP formulas of generated deterministic models (ro and dro). (format) coefficients from '
            '{1e-9, 1e-7, 0.1, 1/3, 2.5, 1e6, 3e15, negatives, 0, -0.0, 1e30}, empty rows, infinite and finite bounds, integer and '
            'binary columns with user bounds, cone rows, and the dual formula of continuous models: the text of lp_export() is read by a strict LP-format reader written for '
            'this check and compared entry by entry (exact float equality) with the formula; (solve) well-conditioned models: the '
            'exported file is read and solved by gurobipy.read (an independent reader) and must reproduce the optimum of solving '
            'the formula directly. In both modes the DataFrame of show() is compared cell by cell with linear/sense/const/qmat/'
            'xmat/ub/lb/vtype. Non-trivial = the file contains an exponent-notation number, an empty row, a quadratic row or a typed '
            'column; distinct by IR hash.')
    assumptions = ['Gurobi reader/solver trusted for the solve mode; optimum compared with 1e-6 relative tolerance (1e-4 for cone programs)',
                   'exponential-cone programs are outside the LP format and are not exported']

    def examples(self, tier):
        return 2000 if tier == 'quick' else 50000

    def strategy(self, tier):
        return c16_case()

    def check(self, case):
        labels = ['mode:' + case['mode'], 'fam:' + case['fam'], 'front:' + case['front']]
        m, x, pieces = detmodel.build(case)
        detmodel.declare(case, m, x, pieces)
        with quiet():
            f = m.do_math()
        text = f.lp_export()
        try:
            parsed = parse_lp(text)
        except LPSyntax as e:
            return Outcome.fail('lp_syntax', 'lp_export() text is not valid for a strict LP reader: %s' % e, labels)
        msg = compare_with_formula(parsed, f)
        if msg:
            return Outcome.fail('lp_content:' + msg.split(':')[0].split(' ')[0], msg, labels)
        msg = compare_show(f)
        if msg:
            return Outcome.fail('show:' + msg.split(' ')[0], 'show(): ' + msg, labels)
        if not any(t in 'IB' for t in case['vtypes']):
            # the dual formula is a compiled program too (its objective usually starts with a negative coefficient)
            with quiet():
                fd = m.do_math(primal=False)
            try:
                pd_ = parse_lp(fd.lp_export())
            except LPSyntax as e:
                return Outcome.fail('lp_syntax:dual', 'lp_export() of the dual formula is not valid for a strict LP reader: %s' % e, labels)
            msg = compare_with_formula(pd_, fd)
            if msg:
                return Outcome.fail('lp_content:dual:' + msg.split(':')[0].split(' ')[0], 'dual formula: ' + msg, labels)
            msg = compare_show(fd)
            if msg:
                return Outcome.fail('show:dual:' + msg.split(' ')[0], 'show() of the dual formula: ' + msg, labels)
            labels.append('dual_formula')
        nt = bool(re.search(r'[0-9]e[-+]?[0-9]', text)) or bool(parsed['qrows']) or bool(parsed['gen']) or bool(parsed['bin']) or \
            any(not t for (_, t, _, _) in parsed['rows'])
        if re.search(r'[0-9]e[-+]?[0-9]', text):
            labels.append('exponent_notation')
        if any(not t for (_, t, _, _) in parsed['rows']):
            labels.append('empty_row')
        if parsed['qrows']:
            labels.append('quadratic_row')
        if parsed['gen'] or parsed['bin']:
            labels.append('typed_column')
        if case['mode'] == 'solve':
            import gurobipy as gp
            from rsome import grb_solver
            d = tempfile.mkdtemp(prefix='vf16_')
            fn = os.path.join(d, 'm.lp')
            try:
                with open(fn, 'w') as fh:
                    fh.write(text)
                with quiet():
                    env = gp.Env(params={'OutputFlag': 0})
                    try:
                        gm = gp.read(fn, env=env)
                        gm.optimize()
                        st_, val = gm.Status, (gm.ObjVal if gm.Status == 2 else None)
                        xfile = None
                        if gm.Status == 2:
                            byname = {v.VarName: v.X for v in gm.getVars()}
                            xfile = np.array([byname.get('x%d' % (j + 1), 0.0) for j in range(f.linear.shape[1])])
                    except gp.GurobiError as ge:
                        return Outcome.fail('reader_rejects', 'gurobipy.read rejects the exported file: %s' % ge, labels)
                    finally:
                        env.dispose()
                    sol = grb_solver.solve(f, display=False)
            finally:
                try:
                    os.remove(fn)
                    os.rmdir(d)
                except OSError:
                    pass
            direct = None if sol is None or sol.x is None or np.isnan(sol.objval) else float(sol.objval)
            if st_ not in (2, 3, 4, 5):
                return Outcome.inconclusive('Gurobi status %s on the exported file (neither optimal nor a certificate)' % st_, labels)
            if (val is None) != (direct is None):
                return Outcome.fail('solve_status', 'exported file: %s, formula solved directly: %s' % (
                    'optimum %r' % val if val is not None else 'status %s' % st_, direct), labels)
            if val is not None:
                tol = 1e-6 if case['fam'] in ('lp', 'milp') else 1e-4
                if abs(val - direct) > tol * (1 + abs(direct)):
                    if case['fam'] in ('soc', 'misoc') and xfile is not None:
                        # the file's entries were already compared with the formula one by one; two conic solves of the same program
                        # may still differ by solver accuracy. The point Gurobi found for the *file* is tested against the *formula*:
                        # if it is feasible there, the difference is not evidence of an export defect
                        from vf.props.c11 import check_formula
                        if check_formula(f, xfile, 1e-5) is None:
                            return Outcome.inconclusive('the optimum of the exported file is a feasible point of the formula: the two Gurobi runs '
                                                        'differ by solver accuracy', labels + ['solver_accuracy'])
                    if case['fam'] in ('soc', 'misoc'):
                        from vf.props.c11 import ill_posed
                        if ill_posed([('gurobi', True, True, direct, sol, f)], tol):
                            return Outcome.inconclusive('the optimum of the compiled program moves by more than the comparison tolerance when rows and '
                                                        'bounds are relaxed by 1e-6 (ill-posed program): the two Gurobi runs cannot be compared', labels + ['ill_posed'])
                    return Outcome.fail('solve_value:' + case['fam'], 'exported file solves to %.9g, the formula to %.9g' % (val, direct), labels)
                labels.append('solved_both')
        return Outcome.ok(nt, labels)


PROP = C16()
