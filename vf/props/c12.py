"""C12 - solution queries return the right numbers for the right objects."""
import numpy as np
from hypothesis import strategies as st

from vf.core import Prop, Outcome
from vf import detmodel
from vf.quiet import quiet

EVAL_ATOMS = ['abs', 'norm1', 'norm2', 'norminf', 'pnorm', 'square', 'sumsqr', 'quad', 'power', 'exp', 'log', 'softplus',
              'entropy', 'sumexp', 'sumlog', 'pexp', 'plog']
VALS = [-2.0, -1.5, -1.0, -0.5, 0.5, 1.0, 1.5, 2.0, 2.5, 3.0]


@st.composite
def ro_case(draw):
    shape = draw(st.sampled_from([[], [1], [3], [4], [2, 2], [2, 3], [3, 1]]))
    size = int(np.prod(shape)) if shape else 1
    V = draw(st.permutations([0.5 * (i + 1) * (1 if i % 2 else -1) for i in range(size + 2)]))[:size]
    nz = draw(st.integers(1, 3))
    ny = draw(st.integers(0, 3))
    mask = [[draw(st.integers(0, 1)) for _ in range(nz)] for _ in range(ny)]
    y0 = [draw(st.sampled_from(VALS)) for _ in range(ny)]
    Y = [[draw(st.sampled_from(VALS)) if mask[k][j] else 0.0 for j in range(nz)] for k in range(ny)]
    adapt_order = draw(st.permutations([(k, j) for k in range(ny) for j in range(nz) if mask[k][j]]))
    idx = draw(st.sampled_from(['first', 'last', 'slice', 'col', 'list', 'neg'])) if shape else 'none'
    atoms = []
    for _ in range(draw(st.integers(1, 3))):
        name = draw(st.sampled_from(EVAL_ATOMS))
        k = 1 if detmodel.ATOMS[name][1] == 'elem' else draw(st.integers(2, 3))
        M = [detmodel._row(draw, size) for _ in range(k)]
        a = {'atom': name, 'M': M, 'spell': draw(st.integers(0, 1))}
        tgt = [draw(st.sampled_from([0.5, 1.0, 2.0] if detmodel.ATOMS[name][2] == 'pos' else VALS)) for _ in range(k)]
        a['v'] = list(np.array(tgt) - np.array(M) @ np.array(V))
        if name == 'pnorm':
            a['p'] = draw(st.sampled_from([3, [3, 2], 2.5]))
        if name == 'power':
            a['p'], a['q'] = draw(st.sampled_from([(2, 1), (3, 1), (3, 2), (5, 2)]))
        if name == 'quad':
            L = np.array([[draw(st.sampled_from([-1.0, 1.0, 2.0])) if j <= i else 0.0 for j in range(k)] for i in range(k)])
            a['nsd'] = draw(st.booleans())
            a['Q'] = ((-1 if a['nsd'] else 1) * (L @ L.T)).tolist()
        if name in ('pexp', 'plog'):       # scale: a positive number or an affine expression of the variables with a positive value
            a['sM'] = [detmodel._row(draw, size, 0.4)] if draw(st.booleans()) else [[0.0] * size]
            a['sv'] = [draw(st.sampled_from([0.5, 1.5, 2.0])) - float(np.array(a['sM'][0]) @ np.array(V))]
        a['mult'] = draw(st.sampled_from([1.0, 2.0, 0.5, -1.0, -3.0]))
        a['off'] = draw(st.sampled_from([0.0, 2.0, -1.5]))
        a['aff'] = detmodel._row(draw, size, 0.4) if draw(st.booleans()) else None
        atoms.append(a)
    nu2 = draw(st.sampled_from([0, 1, 2, 3]))
    return {'mode': 'ro', 'shape': shape, 'V': list(V), 'nz': nz, 'ny': ny, 'mask': mask, 'y0': y0, 'Y': Y,
            'adapt_order': [list(t) for t in adapt_order], 'idx': idx, 'atoms': atoms,
            'sense': draw(st.sampled_from(['min', 'max'])), 'c': detmodel._row(draw, size), 'c0': draw(st.sampled_from([0.0, 1.0, -2.0])),
            'zval': [draw(st.sampled_from(VALS)) for _ in range(nz)], 'A': [detmodel._row(draw, size) for _ in range(2)],
            'b': [draw(st.sampled_from(VALS)) for _ in range(2)],
            # a second random array u declared after z: coefficients of y on u (rule rows that depend on u), realisation of u
            'nu': nu2, 'Yu': [[draw(st.sampled_from(VALS)) if draw(st.booleans()) else 0.0 for _ in range(nu2)] for _ in range(ny)],
            'uval': [draw(st.sampled_from(VALS)) for _ in range(nu2)]}


@st.composite
def dro_case(draw):
    S = draw(st.integers(2, 5))
    n = draw(st.integers(1, 3))
    nz = draw(st.integers(1, 2))
    zh = [[float(draw(st.integers(-3, 6))) for _ in range(nz)] for _ in range(S)]
    rem = list(range(S))
    calls = []
    for _ in range(draw(st.integers(0, S))):
        if not rem:
            break
        g = sorted(draw(st.sets(st.sampled_from(rem), min_size=1, max_size=len(rem))))
        calls.append(g)
        rem = [s for s in rem if s not in g]
    # a second decision v, event-wise (own partition) and affine in z[0], with a rule that differs between events and is
    # identified: v >= p_i*z[0] + q_i (two lines with a kink) on boxes that lie on different sides of the kink, E(z[0]) fixed
    rem2 = list(range(S))
    calls2 = []
    for _ in range(draw(st.integers(0, S))):
        if not rem2:
            break
        g = sorted(draw(st.sets(st.sampled_from(rem2), min_size=1, max_size=min(2, len(rem2)))))
        calls2.append(g)
        rem2 = [s for s in rem2 if s not in g]
    vrule = {'calls': calls2, 'lines': [[float(draw(st.integers(-3, -1))), float(draw(st.integers(-2, 2)))],
                                        [float(draw(st.integers(1, 3))), float(draw(st.integers(-2, 2)))]],
             'mu': [draw(st.sampled_from([-0.5, 0.0, 0.5])) for _ in range(S)]} if draw(st.integers(0, 2)) > 0 else None
    return {'mode': 'dro', 'S': S, 'n': n, 'nz': nz, 'zhat': zh, 'calls': calls, 'vrule': vrule,
            'labels': draw(st.sampled_from(['int', 'str', 'rev'])),
            'G': [detmodel._row(draw, nz) for _ in range(n)], 'h': [float(draw(st.integers(-2, 2))) for _ in range(n)],
            'sense': draw(st.sampled_from(['min', 'max'])), 'zval': [draw(st.sampled_from(VALS)) for _ in range(nz)],
            'affine': draw(st.booleans()), 'radius': draw(st.sampled_from([0.5, 0.5, 1.0])), 'atom': draw(st.sampled_from(['norm2', 'norm1', 'norminf', 'sumsqr', 'abs', 'square', 'exp'])),
            'mult': draw(st.sampled_from([1.0, 2.0, -1.0])), 'off': draw(st.sampled_from([0.0, 1.5]))}


def v_reference(case, zh, rad, sg):
    """per event of v's partition: the affine rule a + B*z0 that majorises (minorises for max) the two lines on the boxes of the
    event's scenarios and has the least (greatest) expected value at the fixed means; solved as a small LP, uniqueness of the
    rule checked by minimising and maximising the slope over the optimal face"""
    from scipy.optimize import linprog
    S = case['S']
    vr = case['vrule']
    rem = list(range(S))
    ev = []
    for g in vr['calls']:
        rem = [s for s in rem if s not in g]
        ev.append(list(g))
    ev = ([rem] if rem else []) + ev
    a_out, B_out = np.zeros(S), np.zeros(S)
    total, unique = 0.0, True
    for g in ev:
        A, b = [], []
        for s in g:
            for z0 in (zh[s][0] - rad, zh[s][0] + rad):
                for (pp, qq) in vr['lines']:
                    # sg=+1: a + B z0 >= pp z0 + qq ; sg=-1: a + B z0 <= -pp z0 - qq
                    A.append([-sg, -sg * z0]); b.append(-(pp * z0 + qq))
        mus = [zh[s][0] + rad * vr['mu'][s] for s in g]
        cost = np.array([sg * len(g) / S, sg * sum(mus) / S])
        r = linprog(cost, A_ub=np.array(A), b_ub=np.array(b), bounds=[(None, None)] * 2, method='highs')
        if r.status != 0:
            return None
        lo = linprog([0, 1], A_ub=np.array(A + [list(cost)]), b_ub=np.array(b + [r.fun + 1e-9]), bounds=[(None, None)] * 2, method='highs')
        hi = linprog([0, -1], A_ub=np.array(A + [list(cost)]), b_ub=np.array(b + [r.fun + 1e-9]), bounds=[(None, None)] * 2, method='highs')
        if lo.status != 0 or hi.status != 0:
            return None
        if abs(lo.x[1] - hi.x[1]) > 1e-6:
            unique = False
        total += sg * r.fun
        for s in g:
            a_out[s], B_out[s] = r.x[0], r.x[1]
    return {'value': float(total), 'a': a_out, 'B': B_out, 'unique': unique}


@st.composite
def c12_case(draw):
    return draw(ro_case()) if draw(st.booleans()) else draw(dro_case())


def np_index(idx, shape):
    if idx == 'none':
        return None
    if idx == 'first':
        return 0
    if idx == 'last':
        return -1
    if idx == 'neg':
        return tuple([-1] * len(shape))
    if idx == 'slice':
        return slice(0, None, 2)
    if idx == 'col':
        return (slice(None), 0) if len(shape) == 2 else slice(1, None)
    return [0, shape[0] - 1]


def close(a, b, tol=1e-6):
    a, b = np.asarray(a, dtype=float), np.asarray(b, dtype=float)
    return a.shape == b.shape and np.allclose(a, b, rtol=tol, atol=tol, equal_nan=True)


class C12(Prop):
    id = 'C12'
    rule = ('(ro) a variable array of rank 0-2 pinned to distinct values, an LDR whose coefficients are pinned by robust equalities on a '
            'full-dimensional set with a random dependency mask declared in a random order of adapt() calls; queries: x.get(), '
            'x[index].get() for int/negative/slice/column/list indices, x(), affine expressions, y.get(), y.get(z) (NaN exactly off '
            'the mask), y(), y(z.assign(v)), a second random array u declared after z (y.get(u), y(u.assign), both assigned in either order), '
            'bi-affine expressions with and without assigned realisations, every atom that supports '
            'evaluation with multipliers +-, offsets and affine addends, model.get() for min and max. (dro) 2-5 scenarios with '
            'int/str/reversed labels, singleton supports, an event-wise decision whose per-event value is known a priori (maximum of '
            'an affine function of the scenario data over the event), partition from a random adapt() sequence, optional affinely '
            'adaptive second decision with its own partition whose rule differs between events and is identified (reference: a small LP per event with a uniqueness test), optional affinely '
            'adaptive decision pinned by y == Gz + h: get() Series must be indexed by the scenario labels and carry the value of the '
            'scenario\'s event; x() = x.get(); affine, bi-affine (assigned z) and convex expressions evaluated per scenario; '
            'model.get() in the user\'s sense. Oracle: the a-priori values and NumPy. Non-trivial = index query on rank>=1, partial '
            'mask, atom with multiplier != 1 or offset, or a partition with a non-contiguous event / adapt order != scenario order.')
    assumptions = ['LP models solved by HiGHS; values compared with 1e-6 tolerance']

    def examples(self, tier):
        return 3000 if tier == 'quick' else 80000

    def strategy(self, tier):
        return c12_case()

    def check(self, case):
        return self.check_ro(case) if case['mode'] == 'ro' else self.check_dro(case)

    # ------------------------------------------------------------------ ro
    def check_ro(self, case):
        import rsome as rso
        from rsome import ro
        shape = tuple(case['shape'])
        V = np.array(case['V'], dtype=float).reshape(shape)
        size = V.size
        nz, ny = case['nz'], case['ny']
        labels = ['mode:ro', 'rank:%d' % len(shape), 'idx:' + case['idx'], 'sense:' + case['sense']]
        m = ro.Model()
        x = m.dvar(shape)
        z = m.rvar(nz)
        nu = case.get('nu', 0)
        u = m.rvar(nu) if nu else None
        y = m.ldr(ny) if ny else None
        mask = np.array(case['mask']).reshape(ny, nz).astype(bool)
        Yu = np.array(case.get('Yu') or np.zeros((ny, nu)), dtype=float).reshape(ny, nu)
        umask = Yu != 0
        for (k, j) in case['adapt_order']:
            y[k].adapt(z[j])
        for k in range(ny):
            for j in range(nu):
                if umask[k, j]:
                    y[k].adapt(u[j])
        m.st(x == V)
        zset = (abs(z) <= 1,) + ((abs(u) <= 1,) if nu else ())
        Y = np.array(case['Y'], dtype=float).reshape(ny, nz)
        y0 = np.array(case['y0'], dtype=float)
        for k in range(ny):
            rhs = y0[k] + Y[k] @ z
            if nu and umask[k].any():
                rhs = rhs + Yu[k] @ u
            m.st((y[k] == rhs).forall(zset))
        c = np.array(case['c'])
        xf = x.reshape((size,)) if shape != (size,) else x
        obj = c @ xf + case['c0']
        (m.min if case['sense'] == 'min' else m.max)(obj)
        with quiet():
            m.solve(display=False)
        if m.solution is None or m.solution.x is None or np.isnan(m.solution.objval):
            return Outcome.skip('not_optimal', labels)
        Vf = V.reshape(size)

        def fail(what, got, want):
            return Outcome.fail('ro:' + what, '%s returned %s, expected %s' % (what, np.asarray(got).tolist() if not isinstance(got, str) else got,
                                                                               np.asarray(want).tolist()), labels)
        want = float(c @ Vf + case['c0'])
        if abs(m.get() - want) > 1e-6 * (1 + abs(want)):
            return fail('model.get', m.get(), want)
        g = x.get()
        if not close(g, V):
            return fail('x.get', g, V)
        if not close(x(), V):
            return fail('x()', x(), V)
        ix = np_index(case['idx'], shape)
        if ix is not None:
            try:
                gs = x[ix].get()
            except Exception as ex:
                return Outcome.fail('ro:slice.get:raises', 'x[%r].get() raised %r' % (ix, ex), labels)
            if not close(gs, V[ix]):
                return fail('x[%s].get' % case['idx'], gs, V[ix])
            if not close(x[ix](), V[ix]):
                return fail('x[%s]()' % case['idx'], x[ix](), V[ix])
        A, b = np.array(case['A']), np.array(case['b'])
        if not close((A @ xf + b)(), A @ Vf + b):
            return fail('affine()', (A @ xf + b)(), A @ Vf + b)
        zv = np.array(case['zval'])
        if ny:
            if not close(y.get(), y0):
                return fail('y.get', y.get(), y0)
            if mask.any():
                Yw = np.where(mask, Y, np.nan)
                gz = y.get(z)
                if not close(gz, Yw):
                    return fail('y.get(z)', gz, Yw)
                gz0 = y.get(z[0])
                if not close(np.asarray(gz0).reshape(ny), Yw[:, 0]):
                    return fail('y.get(z[0])', gz0, Yw[:, 0])
            if not close(y(), y0):
                return fail('y()', y(), y0)
            if mask.any():
                if not close(y(z.assign(zv)), y0 + Y @ zv):
                    return fail('y(z.assign)', y(z.assign(zv)), y0 + Y @ zv)
                if nz >= 2:
                    # realisations given for a slice (the other components stay 0) and for two slices in one call
                    k_ = nz // 2
                    want_ = y0 + Y[:, :k_] @ zv[:k_]
                    try:
                        got_ = y(z[:k_].assign(zv[:k_]))
                    except Exception as ex:      # raising is allowed by the statement; a wrong number is not
                        got_ = None
                        labels.append('slice_assign_raises')
                    if got_ is not None and not close(got_, want_):
                        return fail('y(z[:k].assign)', got_, want_)
                    try:
                        got_ = y(z[k_:].assign(zv[k_:]), z[:k_].assign(zv[:k_]))
                    except Exception as ex:
                        got_ = None
                    if got_ is not None and not close(got_, y0 + Y @ zv):
                        return fail('y(z[k:].assign, z[:k].assign)', got_, y0 + Y @ zv)
                    labels.append('slice_assign')
                e = 2 * y[0] + (xf[0] * z).sum() - 1
                wv = 2 * (y0[0] + Y[0] @ zv) + Vf[0] * zv.sum() - 1
                if not close(e(z.assign(zv)), wv):
                    return fail('biaffine_with_ldr(z.assign)', e(z.assign(zv)), wv)
        if nu:
            uv = np.array(case['uval'], dtype=float)
            labels.append('second_rvar')
            if ny and umask.any():
                Yuw = np.where(umask, Yu, np.nan)
                if not close(y.get(u), Yuw):
                    return fail('y.get(u)', y.get(u), Yuw)
                if not close(y(u.assign(uv)), y0 + Yu @ uv):
                    return fail('y(u.assign)', y(u.assign(uv)), y0 + Yu @ uv)
                if not close(y(z.assign(zv), u.assign(uv)), y0 + Y @ zv + Yu @ uv):
                    return fail('y(z.assign, u.assign)', y(z.assign(zv), u.assign(uv)), y0 + Y @ zv + Yu @ uv)
                if not close(y(u.assign(uv), z.assign(zv)), y0 + Y @ zv + Yu @ uv):
                    return fail('y(u.assign, z.assign)', y(u.assign(uv), z.assign(zv)), y0 + Y @ zv + Yu @ uv)
            ku = min(size, nu)
            eu = (xf[:ku] * u[:ku]).sum() + 3 * u[nu - 1] + z[0]
            wu = float(Vf[:ku] @ uv[:ku] + 3 * uv[nu - 1])
            if not close(eu(u.assign(uv)), wu):
                return fail('biaffine(u.assign) with unspecified z', eu(u.assign(uv)), wu)
            if not close(eu(u.assign(uv), z.assign(zv)), wu + zv[0]):
                return fail('biaffine(u.assign, z.assign)', eu(u.assign(uv), z.assign(zv)), wu + zv[0])
        k = min(size, nz)
        e = (xf[:k] * z[:k]).sum() + c @ xf + 2 * z[0]
        wv = float(Vf[:k] @ zv[:k] + c @ Vf + 2 * zv[0])
        if not close(e(z.assign(zv)), wv):
            return fail('biaffine(z.assign)', e(z.assign(zv)), wv)
        if not close(e(), float(c @ Vf)):
            return fail('biaffine() with unspecified z', e(), float(c @ Vf))
        nt = ix is not None or (mask.any() and not mask.all())
        for a in case['atoms']:
            f = detmodel._atom_expr(a, xf)
            u = np.array(a['M']) @ Vf + np.array(a['v'])
            with np.errstate(all='ignore'):
                fv = detmodel.atom_value(a, u, (np.array(a['sM']) @ Vf + np.array(a['sv'])) if 'sM' in a else None)
            expr = a['mult'] * f + a['off']
            want = a['mult'] * np.asarray(fv) + a['off']
            if a['aff'] is not None:
                expr = expr + np.array(a['aff']) @ xf
                want = want + float(np.array(a['aff']) @ Vf)
            try:
                got = expr()
            except Exception as ex:
                labels.append('eval_unsupported:' + a['atom'])
                continue
            labels.append('atom:' + a['atom'])
            if not close(np.asarray(got).reshape(np.asarray(want).shape) if np.size(got) == np.size(want) else got, want, 1e-6):
                return Outcome.fail('ro:atom_eval:' + a['atom'], '(%g*%s(...)%+g%s)() returned %s, NumPy gives %s' % (
                    a['mult'], a['atom'], a['off'], ' + affine' if a['aff'] is not None else '', np.asarray(got).tolist(), np.asarray(want).tolist()), labels)
            if a['mult'] != 1.0 or a['off'] != 0.0:
                nt = True
        return Outcome.ok(nt, labels)

    # ------------------------------------------------------------------ dro
    def check_dro(self, case):
        import pandas as pd
        import rsome as rso
        from rsome import dro, E
        S, n, nz = case['S'], case['n'], case['nz']
        lab = list(range(S)) if case['labels'] == 'int' else ['s%d' % (5 * s % 7) for s in range(S)] if case['labels'] == 'str' else \
            list(range(S, 0, -1))
        m = dro.Model(S) if case['labels'] == 'int' else dro.Model(lab)
        x = m.dvar(n)
        w = m.dvar(n) if case['affine'] else None
        z = m.rvar(nz)
        fs = m.ambiguity()
        zh = np.array(case['zhat'], dtype=float)
        rad = case['radius'] if (case['affine'] or case['S'] % 2) else 0.0
        for s in range(S):
            if rad:
                fs[lab[s]].suppset(abs(z - zh[s]) <= rad)      # full-dimensional: affine coefficients are identified
            else:
                fs[lab[s]].suppset(z == zh[s])
        fs.probset(m.p == 1.0 / S)
        for g in case['calls']:
            x.adapt([lab[s] for s in g])
        G, h = np.array(case['G'], dtype=float), np.array(case['h'], dtype=float)
        if w is not None:
            w.adapt(z)
            m.st(w == G @ z + h)
        sg = 1.0 if case['sense'] == 'min' else -1.0
        vr = case.get('vrule') if rad else None
        v = None
        if vr:
            v = m.dvar(1)
            for g in vr['calls']:
                v.adapt([lab[s] for s in g])
            v.adapt(z[0])
            for s in range(S):
                fs[lab[s]].exptset(E(z[0]) == float(zh[s][0] + rad * vr['mu'][s]))
            for (pp, qq) in vr['lines']:
                m.st(v >= pp * z[0] + qq) if case['sense'] == 'min' else m.st(v <= -pp * z[0] - qq)
        if case['sense'] == 'min':
            m.minsup(E(x.sum() + (v.sum() if v is not None else 0)), fs)
            m.st(x >= G @ z + h)
        else:
            m.maxinf(E(x.sum() + (v.sum() if v is not None else 0)), fs)
            m.st(x <= G @ z + h)
        with quiet():
            m.solve(display=False)
        labels = ['mode:dro', 'S:%d' % S, 'labels:' + case['labels'], 'sense:' + case['sense']]
        if m.solution is None or m.solution.x is None or np.isnan(m.solution.objval):
            return Outcome.skip('not_optimal', labels)
        rem = list(range(S))
        ev = []
        for g in case['calls']:
            rem = [s for s in rem if s not in g]
            ev.append(list(g))
        ev = ([rem] if rem else []) + ev
        per = zh @ G.T + h + (1.0 if case['sense'] == 'min' else -1.0) * rad * np.abs(G).sum(axis=1)   # S x n, worst case over the box
        want = np.zeros((S, n))
        for g in ev:
            agg = per[g].max(axis=0) if case['sense'] == 'min' else per[g].min(axis=0)
            for s in g:
                want[s] = agg
        obj = float(want.sum(axis=1).mean())
        vexp = None
        if v is not None:
            vexp = v_reference(case, zh, rad, sg)
            if vexp is None:
                return Outcome.skip('v_reference_failed', labels)
            obj += vexp['value']
            labels.append('vrule')
        if abs(m.get() - obj) > 1e-6 * (1 + abs(obj)):
            return Outcome.fail('dro:model.get', 'model.get()=%.9g, expected %.9g' % (m.get(), obj), labels)

        def per_scen(res, what, expect):
            """compare a per-scenario result (Series when event-wise, plain otherwise) with expect[s]"""
            if isinstance(res, pd.Series):
                if list(res.index) != lab:
                    return Outcome.fail('dro:labels:' + what, '%s is indexed by %s, scenario labels are %s' % (what, list(res.index), lab), labels)
                for s in range(S):
                    if not close(res[lab[s]], expect[s]):
                        return Outcome.fail('dro:' + what, '%s[%r] = %s, expected %s (events %s)' % (
                            what, lab[s], np.asarray(res[lab[s]]).tolist(), np.asarray(expect[s]).tolist(), ev), labels)
            else:
                for s in range(S):
                    if not close(res, expect[s]):
                        return Outcome.fail('dro:' + what, '%s = %s (not event-wise), expected %s for scenario %r' % (
                            what, np.asarray(res).tolist(), np.asarray(expect[s]).tolist(), lab[s]), labels)
            return None
        for what, res, exp in (('x.get()', x.get(), want), ('x()', x(), want), ('(2*x+1)()', (2 * x + 1)(), 2 * want + 1)):
            out = per_scen(res, what, exp)
            if out:
                return out
        zv = np.array(case['zval'])
        if nz >= 1:
            k = min(n, nz)
            e = (x[:k] * z[:k]).sum() + x.sum()
            out = per_scen(e(z.assign(zv)), '(x*z).sum()(z.assign)', [float(want[s][:k] @ zv[:k] + want[s].sum()) for s in range(S)])
            if out:
                return out
        a = {'atom': case['atom'], 'M': np.eye(n).tolist(), 'v': [0.0] * n, 'spell': 0}
        f = case['mult'] * detmodel._atom_expr(a, x) + case['off']
        try:
            res = f()
            expv = [case['mult'] * np.asarray(detmodel.atom_value(a, want[s])) + case['off'] for s in range(S)]
            out = per_scen(res, '%g*%s(x)%+g ()' % (case['mult'], case['atom'], case['off']), expv)
            if out:
                return out
            labels.append('atom:' + case['atom'])
        except Exception:
            labels.append('eval_unsupported:' + case['atom'])
        if w is not None:
            out = per_scen(w.get(), 'w.get()', [h] * S)
            if out:
                return out
            out = per_scen(w.get(z), 'w.get(z)', [G] * S)
            if out:
                return out
            out = per_scen(w(z.assign(zv)), 'w(z.assign)', [G @ zv + h] * S)
            if out:
                return out
        if vexp is not None and vexp['unique']:
            labels.append('vrule_identified')
            out = per_scen(v.get(), 'v.get() (event-wise affine rule, intercept)', [np.array([vexp['a'][s]]) for s in range(S)])
            if out:
                return out
            slopes = []
            for s in range(S):
                row = np.full((1, nz), np.nan)
                row[0, 0] = vexp['B'][s]
                slopes.append(row)
            out = per_scen(v.get(z), 'v.get(z) (event-wise affine rule, slope; NaN off the declared dependency)', slopes)
            if out:
                return out
            out = per_scen(v(z.assign(zv)), 'v(z.assign)', [np.array([vexp['a'][s] + vexp['B'][s] * zv[0]]) for s in range(S)])
            if out:
                return out
            if len(set(np.round(vexp['B'], 6))) > 1:
                labels.append('vrule_slopes_differ')
        out = scenario_wise_eval(case, lab, labels)
        if out:
            return out
        noncontig = any(max(g) - min(g) + 1 != len(g) for g in ev) or [g[0] for g in ev] != sorted(g[0] for g in ev)
        return Outcome.ok(noncontig or len(ev) > 1, labels + (['noncontiguous_or_reordered'] if noncontig else []))


def scenario_wise_eval(case, lab, labels):
    """a bi-affine expression of here-and-now decisions and two random arrays, evaluated at realisations given for all scenarios at
    once and / or scenario by scenario (assign(..., sw=True)), in both argument orders"""
    import pandas as pd
    import rsome as rso
    from rsome import dro, E
    S = case['S']
    xv = np.array([1.5, -2.0])
    m = dro.Model(lab)
    x = m.dvar(2)
    z = m.rvar(2)
    u = m.rvar(1)
    fs = m.ambiguity()
    for s_ in range(S):
        fs[lab[s_]].suppset(abs(z - s_) <= 1, abs(u) <= 1)
    wv = m.dvar(1)                # event-wise, one event per scenario: w_s = s + 1 (worst case of z[0] in scenario s)
    for l_ in lab[1:]:
        wv.adapt(l_)
    m.minsup(E(x.sum() + z.sum() + u.sum() + wv.sum()), fs)
    m.st(x == xv, wv >= z[0])
    y = m.dvar(1)                 # affinely adaptive, the same rule in every scenario
    y.adapt(u)
    m.st(y == 2 * u + 1)
    with quiet():
        m.solve(display=False)
    if m.solution is None or m.solution.x is None or np.isnan(m.solution.objval):
        return None
    e = x[0] * u + x @ z + 1.0
    zv = (np.array(case['zval'], dtype=float).tolist() + [0.5, -1.0])[:2]
    zs = np.array([[zv[0] + s_, zv[1] - 2 * s_] for s_ in range(S)])
    us = np.array([[0.5 * s_ - 1.0] for s_ in range(S)])
    uv = np.array([2.0])
    val = lambda zz, uu: np.array([xv[0] * uu[0] + xv @ zz + 1.0])
    combos = [('e(u.assign(sw), z.assign)', lambda: e(u.assign(us, sw=True), z.assign(np.array(zv))), [val(zv, us[s_]) for s_ in range(S)]),
              ('e(z.assign, u.assign(sw))', lambda: e(z.assign(np.array(zv)), u.assign(us, sw=True)), [val(zv, us[s_]) for s_ in range(S)]),
              ('e(z.assign(sw), u.assign)', lambda: e(z.assign(zs, sw=True), u.assign(uv)), [val(zs[s_], uv) for s_ in range(S)]),
              ('e(u.assign, z.assign(sw))', lambda: e(u.assign(uv), z.assign(zs, sw=True)), [val(zs[s_], uv) for s_ in range(S)]),
              ('e(z.assign(sw), u.assign(sw))', lambda: e(z.assign(zs, sw=True), u.assign(us, sw=True)), [val(zs[s_], us[s_]) for s_ in range(S)]),
              ('e(z.assign, u.assign)', lambda: e(z.assign(np.array(zv)), u.assign(uv)), [val(zv, uv)] * S),
              ('e(z.assign(sw))', lambda: e(z.assign(zs, sw=True)), [val(zs[s_], [0.0]) for s_ in range(S)]),
              ('(norm(x) + w)()', lambda: (rso.norm(x) + wv)(), [np.array([float(np.linalg.norm(xv)) + s_ + 1.0]) for s_ in range(S)]),
              ('(2*abs(x[0]) - w)()', lambda: (2 * abs(x[0]) - wv)(), [np.array([2 * abs(xv[0]) - s_ - 1.0]) for s_ in range(S)]),
              ('y(u.assign(sw))', lambda: y(u.assign(us, sw=True)), [2 * us[s_] + 1 for s_ in range(S)]),
              ('y(u.assign)', lambda: y(u.assign(uv)), [2 * uv + 1] * S),
              ('(3*y - x[0])(u.assign(sw))', lambda: (3 * y - x[0])(u.assign(us, sw=True)), [3 * (2 * us[s_] + 1) - xv[0] for s_ in range(S)])]
    for what, f, expect in combos:
        res = f()
        if isinstance(res, pd.Series):
            if list(res.index) != list(lab):
                return Outcome.fail('dro:sw_labels', '%s is indexed by %s, scenario labels are %s' % (what, list(res.index), list(lab)), labels)
            got = [np.asarray(res[l_], dtype=float).ravel() for l_ in lab]
        else:
            if 'sw' in what and S > 1 and any(not np.allclose(expect[0], e_) for e_ in expect):
                return Outcome.fail('dro:sw_eval', '%s returned the single value %s, expected one value per scenario: %s' % (
                    what, np.asarray(res).tolist(), [e_.tolist() for e_ in expect]), labels)
            got = [np.asarray(res, dtype=float).ravel()] * S
        for s_ in range(S):
            if not np.allclose(got[s_], expect[s_], rtol=1e-7, atol=1e-7):
                return Outcome.fail('dro:sw_eval', '%s gives %s for scenario %r, expected %s' % (what, got[s_].tolist(), lab[s_], expect[s_].tolist()), labels)
    labels.append('scenario_wise_eval')
    return None


PROP = C12()
