"""C05 - array algebra on variables is NumPy's: same shapes, same values.

Generator: typed, shape-aware expression trees (construction, not rejection): every
operator is chosen after computing NumPy's result on shadow arrays, so each emitted
operation is one NumPy accepts.  Oracle: NumPy on the shadow arrays; the RSOME object is
evaluated from linear/const (raffine/affine) at two integer assignments of all variables.
"""
import numpy as np
import scipy.sparse as sp
from hypothesis import strategies as st

from vf.core import Prop, Outcome

# ----------------------------------------------------------------------------- IR helpers
# types: 'C' constant, 'D' decision-affine, 'R' random-affine, 'B' bi-affine


def _idx_from_ir(spec):
    out = []
    for s in spec:
        t = s['t']
        if t == 'int':
            out.append(int(s['v']))
        elif t == 'slice':
            out.append(slice(*s['v']))
        elif t == 'list':
            out.append(list(s['v']))
        elif t == 'mask':
            out.append(np.array(s['v'], dtype=bool))
        elif t == 'ell':
            out.append(Ellipsis)
        elif t == 'none':
            out.append(None)
    if len(out) == 1 and spec[0].get('bare'):
        return out[0]
    return tuple(out)


def _const_from_ir(c):
    kind = c['kind']
    if kind == 'pyint':
        return int(c['v'])
    if kind == 'pyfloat':
        return float(c['v'])
    if kind == 'npscalar':
        return np.float64(c['v']) if c.get('dtype', 'f8') == 'f8' else np.int64(c['v'])
    arr = np.array(c['v'], dtype={'i8': np.int64, 'f8': np.float64, 'f4': np.float32}[c.get('dtype', 'f8')])
    arr = arr.reshape(c['shape'])
    if kind == 'sparse':
        return sp.csr_matrix(arr)
    if c.get('view'):
        big = np.zeros(tuple(2 * d for d in arr.shape) if arr.ndim else (), dtype=arr.dtype)
        if arr.ndim:
            sl = tuple(slice(None, None, 2) for _ in arr.shape)
            big[sl] = arr
            arr = big[sl]
    if c.get('ro'):
        arr.setflags(write=False)
    return arr


def _dense(c):
    v = _const_from_ir(c)
    if sp.issparse(v):
        return np.asarray(v.todense())
    return v


# ----------------------------------------------------------------------------- generator
SMALL = st.integers(-3, 3)
MAX_SIZE = 192    # RSOME's object-array index bookkeeping is slow; size is bounded, rank is not


@st.composite
def _shape(draw, min_dims=0, max_dims=4, max_side=4):
    nd = draw(st.integers(min_dims, max_dims))
    return [draw(st.integers(1, max_side)) for _ in range(nd)]


def _const_ir(draw, shape, allow_sparse=False, allow_scalar_kinds=True):
    shape = list(shape)
    size = int(np.prod(shape)) if shape else 1
    if not shape and allow_scalar_kinds:
        kind = draw(st.sampled_from(['pyint', 'pyfloat', 'npscalar', 'array']))
        if kind != 'array':
            v = draw(st.sampled_from([-3, -2, -1, 1, 2, 3, 0.5, -1.5, 0])) if kind != 'pyint' else draw(SMALL)
            return {'kind': kind, 'v': v, 'shape': [], 'dtype': 'f8'}
    dtype = draw(st.sampled_from(['f8', 'f8', 'i8', 'f4']))
    if dtype == 'i8':
        vals = [draw(SMALL) for _ in range(size)]
    else:
        vals = [draw(st.sampled_from([-3.0, -2.0, -1.0, 0.0, 1.0, 2.0, 3.0, 0.5, -1.5, 2.5])) for _ in range(size)]
    kind = 'array'
    if allow_sparse and len(shape) == 2 and draw(st.integers(0, 3)) == 0:
        kind = 'sparse'
        dtype = 'f8'
    return {'kind': kind, 'v': vals, 'shape': shape, 'dtype': dtype,
            'ro': draw(st.booleans()), 'view': draw(st.integers(0, 4)) == 0}


def _bcast_shape(draw, shape, grow=True):
    """a shape broadcast-compatible with `shape` (either direction)."""
    shape = list(shape)
    nd = len(shape)
    k = draw(st.integers(0, nd + (1 if grow and nd < 4 else 0)))
    out = []
    for i in range(k):
        pos = nd - 1 - i
        if pos >= 0:
            d = shape[pos]
            if d == 1 and grow:
                out.append(draw(st.sampled_from([1, 1, 2, 3])))
            else:
                out.append(draw(st.sampled_from([1, d, d])))
        else:
            out.append(draw(st.integers(1, 3)))
    return out[::-1]


def _index_ir(draw, shape):
    """an index expression NumPy accepts for an array of `shape`."""
    nd = len(shape)
    if nd == 0:
        return draw(st.sampled_from([[{'t': 'ell'}], [{'t': 'none'}], []]))
    mode = draw(st.integers(0, 9))
    if mode == 0:  # full boolean mask over the whole array
        n = int(np.prod(shape))
        m = [draw(st.booleans()) for _ in range(n)]
        return [{'t': 'maskfull', 'v': m, 'shape': list(shape)}]
    spec = []
    used_ell = False
    n_adv = 0
    adv_len = None
    axis = 0
    while axis < nd:
        d = shape[axis]
        c = draw(st.integers(0, 11))
        if c <= 2:
            spec.append({'t': 'int', 'v': draw(st.integers(-d, d - 1))})
        elif c <= 6:
            a = draw(st.one_of(st.none(), st.integers(-d - 1, d + 1)))
            b = draw(st.one_of(st.none(), st.integers(-d - 1, d + 1)))
            s = draw(st.sampled_from([None, None, 1, 2, -1, -2, 3]))
            spec.append({'t': 'slice', 'v': [a, b, s]})
        elif c == 7 and n_adv < 2:
            ln = adv_len if adv_len is not None else draw(st.integers(1, 3))
            adv_len = ln
            n_adv += 1
            spec.append({'t': 'list', 'v': [draw(st.integers(-d, d - 1)) for _ in range(ln)]})
        elif c == 8 and n_adv == 0:
            n_adv += 2
            spec.append({'t': 'mask', 'v': [draw(st.booleans()) for _ in range(d)]})
        elif c == 9 and not used_ell:
            used_ell = True
            spec.append({'t': 'ell'})
            skip = draw(st.integers(0, nd - axis))
            axis += skip
            continue
        elif c == 10:
            spec.append({'t': 'none'})
            continue
        else:
            break  # leave the remaining axes un-indexed
        axis += 1
    if len(spec) == 1 and spec[0]['t'] in ('int', 'slice', 'list', 'mask') and draw(st.booleans()):
        spec[0]['bare'] = True
    return spec


def _np_index(spec):
    if spec and spec[0]['t'] == 'maskfull':
        return np.array(spec[0]['v'], dtype=bool).reshape(spec[0]['shape'])
    return _idx_from_ir(spec)


class _Gen:
    """mutable generation context: declared variables and the draw function."""

    def __init__(self, draw, front):
        self.draw = draw
        self.front = front
        self.vars = []          # {'kind','shape','mask'}

    def new_var(self, kind, shape):
        v = {'kind': kind, 'shape': list(shape)}
        self.vars.append(v)
        return len(self.vars) - 1

    def leaf(self, typ, shape):
        """a leaf of the given type and shape (variable, slice of a bigger variable, constant)."""
        draw = self.draw
        if shape and int(np.prod(shape)) > MAX_SIZE:
            raise ValueError('leaf too large')
        if typ == 'C':
            return ['const', _const_ir(draw, shape)], list(shape), 'C'
        kind = {'D': 'dvar', 'R': 'rvar', 'B': 'ldr'}[typ]
        if typ == 'B' and self.front == 'dro':
            kind, typ = 'dvar', 'D'
        # reuse an existing variable of that exact kind/shape sometimes
        cands = [i for i, v in enumerate(self.vars) if v['kind'] == kind and v['shape'] == list(shape)]
        if cands and draw(st.booleans()):
            i = draw(st.sampled_from(cands))
        else:
            i = self.new_var(kind, shape)
        t = 'B' if kind == 'ldr' else typ
        return ['var', i], list(shape), t


def _shadow(shape):
    return np.zeros(shape)


@st.composite
def case_strategy(draw, max_ops=6):
    front = draw(st.sampled_from(['ro', 'ro', 'dro']))
    g = _Gen(draw, front)
    typ = draw(st.sampled_from(['D', 'D', 'D', 'R', 'B']))
    shape = draw(_shape(0, 4))
    while shape and int(np.prod(shape)) > MAX_SIZE:
        shape = shape[1:]
    node, shape, typ = g.leaf(typ, shape)
    # sometimes start from a slice of a variable (VarSub / DecRuleSub)
    nops = draw(st.integers(1, max_ops))
    ops_used = []
    if typ == 'B' and node[0] == 'var' and shape and shape[0] >= 2 and draw(st.integers(0, 1)) == 0:
        # the rule itself read through an index that permutes its entries (reversed / stepped-back slice, shuffled list)
        d = shape[0]
        if draw(st.booleans()):
            spec = [{'t': 'slice', 'v': [None, None, draw(st.sampled_from([-1, -1, -2]))], 'bare': len(shape) == 1}]
        else:
            spec = [{'t': 'list', 'v': list(draw(st.permutations(list(range(d))))), 'bare': len(shape) == 1}]
        if len(shape) == 2 and draw(st.booleans()):
            spec.append({'t': 'int', 'v': draw(st.integers(0, shape[1] - 1))})
        try:
            res = _shadow(shape)[_np_index(spec)]
            node = ['idx', node, spec]
            shape = list(res.shape)
        except (ValueError, IndexError):
            pass
    for _ in range(nops):
        sh = _shadow(shape)
        saved = (node, list(shape), typ)
        choices = ['neg', 'add', 'mul', 'idx', 'idx', 'reshape', 'flatten', 'T', 'sum', 'stack']
        if len(shape) >= 1:
            choices += ['matmul', 'rmatmul', 'matmul']
        if len(shape) == 2:
            choices += ['diag', 'tri', 'trace']
        op = draw(st.sampled_from(choices))
        try:
            if op == 'neg':
                node = ['neg', node]
            elif op == 'add':
                oshape = _bcast_shape(draw, shape)
                # operand type: combos that stay affine / bi-affine
                otyp = draw(st.sampled_from({'D': ['C', 'C', 'D', 'R', 'B'], 'R': ['C', 'C', 'R', 'D'],
                                             'B': ['C', 'C', 'D', 'R', 'B']}[typ]))
                other, oshape, otyp = g.leaf(otyp, oshape)
                res = sh + _shadow(oshape)
                flavour = draw(st.sampled_from(['add', 'radd', 'sub', 'rsub']))
                if otyp == 'C' and len(oshape) == 2 and draw(st.booleans()):
                    # a SciPy sparse matrix as the right operand of + / - (on the left SciPy's own operator is in charge)
                    other = ['const', dict(_const_ir(draw, oshape), kind='sparse', dtype='f8')]
                    flavour = draw(st.sampled_from(['add', 'sub']))
                node = [flavour, node, other]
                shape = list(res.shape)
                typ = _join(typ, otyp)
            elif op == 'mul':
                oshape = _bcast_shape(draw, shape)
                opts = {'D': ['C', 'C', 'C', 'R'], 'R': ['C', 'C', 'C', 'D'], 'B': ['C']}[typ]
                otyp = draw(st.sampled_from(opts))
                if otyp == 'C':
                    other = ['const', _const_ir(draw, oshape, allow_sparse=True)]
                else:
                    other, oshape, otyp = g.leaf(otyp, oshape)
                res = sh * _shadow(oshape)
                flavour = draw(st.sampled_from(['mul', 'rmul']))
                if other[0] == 'const' and other[1]['kind'] == 'sparse':
                    flavour = 'mul'
                node = [flavour, node, other]
                shape = list(res.shape)
                typ = 'B' if otyp in 'DR' else typ
            elif op in ('matmul', 'rmatmul'):
                n = shape[-1] if op == 'matmul' else (shape[-2] if len(shape) >= 2 else shape[0])
                if op == 'matmul':
                    form = draw(st.integers(0, 3))
                    if form == 0:
                        oshape = [n]
                    elif form <= 2 or len(shape) < 2:
                        oshape = [n, draw(st.integers(1, 3))]
                    else:
                        batch = _bcast_shape(draw, shape[:-2], grow=True)
                        oshape = batch + [n, draw(st.integers(1, 3))]
                    res = sh @ _shadow(oshape)
                else:
                    form = draw(st.integers(0, 3))
                    if form == 0:
                        oshape = [n]
                    elif form <= 2 or len(shape) < 2:
                        oshape = [draw(st.integers(1, 3)), n]
                    else:
                        batch = _bcast_shape(draw, shape[:-2], grow=True)
                        oshape = batch + [draw(st.integers(1, 3)), n]
                    res = _shadow(oshape) @ sh
                opts = {'D': ['C', 'C', 'C', 'R'], 'R': ['C', 'C', 'C', 'D'], 'B': ['C']}[typ]
                otyp = draw(st.sampled_from(opts))
                if otyp == 'C':
                    other = ['const', _const_ir(draw, oshape, allow_sparse=(op == 'matmul'),
                                                allow_scalar_kinds=False)]
                else:
                    other, oshape, otyp = g.leaf(otyp, oshape)
                node = [op, node, other]
                shape = list(res.shape)
                typ = 'B' if otyp in 'DR' else typ
            elif op == 'idx':
                spec = _index_ir(draw, shape)
                res = sh[_np_index(spec)]
                node = ['idx', node, spec]
                shape = list(res.shape)
            elif op == 'reshape':
                size = int(np.prod(shape)) if shape else 1
                facs = _factorisations(size)
                new = draw(st.sampled_from(facs))
                node = ['reshape', node, new]
                shape = list(new)
            elif op == 'flatten':
                node = ['flatten', node]
                shape = [int(np.prod(shape)) if shape else 1]
            elif op == 'T':
                node = ['T', node]
                shape = list(sh.T.shape)
            elif op == 'sum':
                if shape:
                    axis = draw(st.one_of(st.none(), st.integers(-len(shape), len(shape) - 1)))
                else:
                    axis = None
                res = sh.sum(axis=axis)
                node = ['sum', node, axis]
                shape = list(res.shape)
            elif op == 'stack':
                if typ == 'B' or not shape:
                    # concat of bi-affine is outside the statement; use vec for scalars
                    if not shape and typ != 'B':
                        k = draw(st.integers(1, 3))
                        others = []
                        for _j in range(k):
                            ot = draw(st.sampled_from(['C', typ]))
                            o, _, _ = g.leaf(ot, [])
                            others.append(o)
                        pos = draw(st.integers(0, k))
                        items = others[:pos] + [node] + others[pos:]
                        node = ['vec', items]
                        shape = [k + 1]
                    else:
                        node = ['neg', node]
                else:
                    axis = draw(st.integers(0, len(shape) - 1))
                    k = draw(st.integers(1, 2))
                    others = []
                    tot = shape[axis]
                    for _j in range(k):
                        osh = list(shape)
                        osh[axis] = draw(st.integers(1, 3))
                        tot += osh[axis]
                        ot = draw(st.sampled_from(['C', typ, typ]))
                        o, _, _ = g.leaf(ot, osh)
                        others.append(o)
                    pos = draw(st.integers(0, k))
                    items = others[:pos] + [node] + others[pos:]
                    form = 'concat'
                    if len(shape) == 2:
                        form = draw(st.sampled_from(['concat', 'rstack', 'cstack']))
                        if form == 'rstack' and axis != 0 or form == 'cstack' and axis != 1:
                            form = 'concat'
                    node = [form, items, axis]
                    shape = list(shape)
                    shape[axis] = tot
            elif op == 'diag':
                k = draw(st.integers(-min(shape) + 1 if min(shape) > 1 else 0, max(0, min(shape) - 1)))
                fill = draw(st.booleans())
                node = ['diag', node, k, fill]
                if fill:
                    res = sh * 0
                else:
                    res = np.diag(sh, k)
                shape = list(res.shape)
            elif op == 'tri':
                k = draw(st.integers(-3, 3))
                node = [draw(st.sampled_from(['tril', 'triu'])), node, k]
            elif op == 'trace':
                node = ['trace', node]
                shape = []
            if any(d == 0 for d in shape) or int(np.prod(shape)) > MAX_SIZE:
                node, shape, typ = saved      # empty / very large arrays are not generated
                continue
            ops_used.append(op)
            if shape and draw(st.integers(0, 3)) == 0:
                # the same expression object is also read on the side (indexed, summed, transposed, reshaped) before it is
                # used again: reads must be right and must not change what later operators see
                probes = []
                sh2 = _shadow(shape)
                for _p in range(draw(st.integers(1, 2))):
                    kind = draw(st.sampled_from(['idx', 'idx', 'sum', 'T', 'reshape', 'flatten'] + (['tril', 'triu', 'diag'] if len(shape) == 2 else [])))
                    if kind == 'idx':
                        spec = _index_ir(draw, shape)
                        sh2[_np_index(spec)]
                        probes.append(['idx', ['hole'], spec])
                    elif kind == 'sum':
                        probes.append(['sum', ['hole'], draw(st.one_of(st.none(), st.integers(-len(shape), len(shape) - 1)))])
                    elif kind == 'T':
                        probes.append(['T', ['hole']])
                    elif kind == 'flatten':
                        probes.append(['flatten', ['hole']])
                    elif kind in ('tril', 'triu'):
                        probes.append([kind, ['hole'], draw(st.integers(-2, 2))])
                    elif kind == 'diag':
                        probes.append(['diag', ['hole'], 0, True])
                    else:
                        probes.append(['reshape', ['hole'], draw(st.sampled_from(_factorisations(int(np.prod(shape)))))])
                node = ['tee', node, probes]
        except (ValueError, IndexError):
            # NumPy rejected the shadow operation: skip this step (counts as not emitted)
            node, shape, typ = saved
            continue
    masks = {}
    if any(v['kind'] == 'ldr' for v in g.vars) and not any(v['kind'] == 'rvar' for v in g.vars) and draw(st.integers(0, 3)) > 0:
        # a decision rule without any random variable in the model cannot adapt: declare one (not used by the expression) so
        # that indexing / reshaping the rule itself is exercised with a dependence pattern
        g.new_var('rvar', [draw(st.integers(1, 3))])
    for i, v in enumerate(g.vars):
        if v['kind'] == 'ldr':
            size = int(np.prod(v['shape'])) if v['shape'] else 1
            v['mask_seed'] = draw(st.integers(0, 2 ** 16))
            v['mask_mode'] = draw(st.sampled_from(['none', 'full', 'partial', 'partial']))
    use_func = draw(st.booleans())
    return {'front': front, 'vars': g.vars, 'expr': node, 'func_style': use_func}


def _join(a, b):
    s = set([a, b]) - {'C'}
    if not s:
        return 'C'
    if s == {'D'}:
        return 'D'
    if s == {'R'}:
        return 'R'
    return 'B'


def _factorisations(n):
    out = [[n]]
    for a in range(1, n + 1):
        if n % a == 0:
            out.append([a, n // a])
            for b in range(1, n // a + 1):
                if (n // a) % b == 0:
                    out.append([a, b, n // a // b])
    if n == 1:
        out.append([])
    return out


# ----------------------------------------------------------------------------- evaluation
class Unsupported(Exception):
    pass


def _values(i, shape, k):
    size = int(np.prod(shape)) if shape else 1
    v = ((np.arange(size) * 7 + 3 * i + 5 * k + (i * i) % 4) % 11) - 5.0
    return v.reshape(shape)


def build(case):
    """declare the variables in RSOME; returns (model, objects, info)"""
    from rsome import ro, dro
    front = case['front']
    if front == 'ro':
        m = ro.Model()
    else:
        m = dro.Model(3)
    objs = []
    # random variables first (LDR masks need them), then the rest in declared order
    order = [i for i, v in enumerate(case['vars']) if v['kind'] == 'rvar'] + \
            [i for i, v in enumerate(case['vars']) if v['kind'] != 'rvar']
    tmp = {}
    for i in order:
        v = case['vars'][i]
        shp = tuple(v['shape'])
        if v['kind'] == 'rvar':
            tmp[i] = m.rvar(shp)
        elif v['kind'] == 'dvar':
            tmp[i] = m.dvar(shp)
        else:
            tmp[i] = m.ldr(shp)
    objs = [tmp[i] for i in range(len(case['vars']))]
    return m, objs


def ldr_masks(case, nrand):
    masks = {}
    for i, v in enumerate(case['vars']):
        if v['kind'] != 'ldr':
            continue
        size = int(np.prod(v['shape'])) if v['shape'] else 1
        mode = v.get('mask_mode', 'none')
        if nrand == 0 or mode == 'none':
            masks[i] = np.zeros((size, nrand), dtype=bool)
        elif mode == 'full':
            masks[i] = np.ones((size, nrand), dtype=bool)
        else:
            rs = np.random.RandomState(v.get('mask_seed', 0))
            if size * nrand <= 240:
                masks[i] = rs.rand(size, nrand) < 0.5
            else:       # big blocks: a few (entry, component) pairs only, to keep adapt() calls few
                mk = np.zeros((size, nrand), dtype=bool)
                rr = rs.choice(size, size=min(size, 4), replace=False)
                cc = rs.choice(nrand, size=min(nrand, 4), replace=False)
                for r in rr:
                    for c in cc:
                        mk[r, c] = rs.rand() < 0.6
                masks[i] = mk
    return masks


def declare_adapt(case, objs, masks):
    """turn masks into adapt() calls on whole arrays / entries; masks are column patterns per rvar entry."""
    rv = [(i, o) for i, o in enumerate(objs) if case['vars'][i]['kind'] == 'rvar']
    for i, mk in masks.items():
        y = objs[i]
        if mk.size == 0 or not mk.any():
            continue
        shape = case['vars'][i]['shape']
        if mk.all():
            for _, z in rv:
                y.adapt(z)
            continue
        for r in range(mk.shape[0]):
            idx = np.unravel_index(r, shape) if shape else ()
            for _, z in rv:
                zi = z.get_ind() if hasattr(z, 'get_ind') else None
                for pos, col in enumerate(zi):
                    if mk[r, col]:
                        zshape = z.shape
                        zidx = np.unravel_index(pos, zshape) if zshape else ()
                        yt = y[idx] if shape else y
                        zt = z[zidx] if zshape else z
                        yt.adapt(zt)


def obs_shape(e):
    """shape as observed on the affine form (Affine.const / RoAffine.affine), cf. observe_at"""
    from rsome.lp import Affine, RoAffine, Vars, DecRule, DecRuleSub
    if isinstance(e, (Vars, DecRule, DecRuleSub)):
        e = e.to_affine()
    if isinstance(e, (Affine, RoAffine)):
        return tuple(int(d) for d in e.shape)
    return tuple(np.shape(e))


def eval_rsome(e, xvec, zvec):
    """value of an RSOME expression object from its stored coefficient data"""
    from rsome.lp import Affine, RoAffine, Vars, DecRule, DecRuleSub
    if isinstance(e, (int, float, np.number, np.ndarray)):
        return np.asarray(e, dtype=float)
    if isinstance(e, (DecRule, DecRuleSub)):
        e = e.to_affine()
    if isinstance(e, Vars):
        e = e.to_affine()
    if isinstance(e, RoAffine):
        ra = e.raffine
        lin = ra.linear
        A = np.asarray(lin @ xvec[:lin.shape[1]]).reshape(ra.const.shape) + ra.const
        if A.shape[0] != e.size:
            raise AssertionError('raffine has %d rows for an expression of size %d' % (A.shape[0], e.size))
        val = (A @ zvec[:A.shape[1]]).reshape(e.shape)
        return val + eval_rsome(e.affine, xvec, zvec)
    if isinstance(e, Affine):
        vec = xvec if e.model.mtype in 'VR' else zvec
        lin = e.linear
        if lin.shape[0] != int(np.prod(e.const.shape)):
            raise AssertionError('linear has %d rows, const has shape %s' % (lin.shape[0], e.const.shape))
        out = np.asarray(lin @ vec[:lin.shape[1]]).reshape(e.const.shape) + e.const
        if tuple(e.shape) != tuple(e.const.shape):
            raise AssertionError('shape attribute %s != const shape %s' % (e.shape, e.const.shape))
        return out
    raise Unsupported('result type %s' % type(e).__name__)


class Mismatch(Exception):
    def __init__(self, kind, op, msg):
        super().__init__(msg)
        self.kind, self.op = kind, op


def interp(node, objs, npvals, stats, func_style, vecs=None):
    """returns (rsome_object, numpy_value); every node is compared with NumPy as soon as it is built,
    so a failure is attributed to the innermost operator that went wrong."""
    e, nv = _interp(node, objs, npvals, stats, func_style, vecs)
    if vecs is not None and vecs[0] is not None and node[0] not in ('var', 'const', 'hole', 'tee'):
        op = node[0]
        try:
            rv = eval_rsome(e, vecs[0], vecs[1])
        except Unsupported:
            return e, nv
        except AssertionError as ae:
            raise Mismatch('inconsistent_object', op, str(ae))
        eshape = obs_shape(e)
        nva = np.asarray(nv, dtype=float)
        if tuple(eshape) != tuple(nva.shape):
            raise Mismatch('shape', op, 'op %s: RSOME shape %s, NumPy shape %s' % (op, eshape, nva.shape))
        if rv.shape != nva.shape or not np.allclose(rv, nva, rtol=1e-9, atol=1e-9):
            raise Mismatch('value', op, 'op %s: RSOME value %s, NumPy value %s' % (op, np.asarray(rv).tolist(), nva.tolist()))
    return e, nv


def _interp(node, objs, npvals, stats, func_style, vecs=None):
    import rsome as rso
    op = node[0]

    def R(f, name):
        try:
            out = f()
            if out is None or out is NotImplemented:
                raise Mismatch('returns_nothing', name, 'operator %s returned %r instead of an expression (or raising)' % (name, out))
            return out
        except Mismatch:
            raise
        except Exception as ex:  # RSOME raised: allowed by the statement ("raises rather than ...")
            from vf.core import rsome_frame
            stats.append('unsupported:%s:%s' % (name, type(ex).__name__))
            raise Unsupported(name)

    if op == 'var':
        return objs[node[1]], npvals[node[1]]
    if op == 'hole':
        return vecs[2]
    if op == 'tee':
        a, av = interp(node[1], objs, npvals, stats, func_style, vecs)
        for pr in node[2]:
            try:
                interp(pr, objs, npvals, stats, func_style, (vecs[0], vecs[1], (a, av)) if vecs is not None else (None, None, (a, av)))
            except Unsupported:
                pass
            # a side read must not change the object it read
            if vecs is not None and vecs[0] is not None:
                try:
                    rv = eval_rsome(a, vecs[0], vecs[1])
                except (Unsupported, AssertionError):
                    rv = None
                if rv is not None and (rv.shape != np.asarray(av, dtype=float).shape or not np.allclose(rv, av, rtol=1e-9, atol=1e-9)):
                    raise Mismatch('operand_changed', pr[0], 'reading %s of an expression changed the expression itself: now %s, was %s' % (
                        pr[0], np.asarray(rv).tolist(), np.asarray(av, dtype=float).tolist()))
        return a, av
    if op == 'const':
        return _const_from_ir(node[1]), np.asarray(_dense(node[1]), dtype=float)
    if op in ('neg', 'flatten', 'T', 'trace'):
        a, av = interp(node[1], objs, npvals, stats, func_style, vecs)
        if op == 'neg':
            return R(lambda: -a, op), -av
        if op == 'flatten':
            return R(lambda: a.flatten(), op), av.flatten()
        if op == 'T':
            return R(lambda: a.T, op), av.T
        if op == 'trace':
            return R(lambda: (rso.trace(a) if func_style else a.trace()), op), np.trace(av)
    if op in ('add', 'radd', 'sub', 'rsub', 'mul', 'rmul', 'matmul', 'rmatmul'):
        a, av = interp(node[1], objs, npvals, stats, func_style, vecs)
        b, bv = interp(node[2], objs, npvals, stats, func_style, vecs)
        if op == 'add':
            return R(lambda: a + b, op), av + bv
        if op == 'radd':
            return R(lambda: b + a, op), bv + av
        if op == 'sub':
            return R(lambda: a - b, op), av - bv
        if op == 'rsub':
            return R(lambda: b - a, op), bv - av
        if op == 'mul':
            return R(lambda: a * b, op), av * bv
        if op == 'rmul':
            return R(lambda: b * a, op), bv * av
        if op == 'matmul':
            return R(lambda: a @ b, op), av @ bv
        if op == 'rmatmul':
            return R(lambda: b @ a, op), bv @ av
    if op == 'idx':
        a, av = interp(node[1], objs, npvals, stats, func_style, vecs)
        ix = _np_index(node[2])
        return R(lambda: a[ix], 'idx'), av[ix]
    if op == 'reshape':
        a, av = interp(node[1], objs, npvals, stats, func_style, vecs)
        shp = tuple(node[2])
        return R(lambda: a.reshape(shp), op), av.reshape(shp)
    if op == 'sum':
        a, av = interp(node[1], objs, npvals, stats, func_style, vecs)
        ax = node[2]
        return R(lambda: (a.sum() if ax is None else a.sum(axis=ax)), op), av.sum(axis=ax)
    if op in ('concat', 'rstack', 'cstack'):
        items = [interp(t, objs, npvals, stats, func_style, vecs) for t in node[1]]
        ax = node[2]
        ro_items = [i[0] for i in items]
        npv = np.concatenate([i[1] for i in items], axis=ax)
        if op == 'concat':
            return R(lambda: rso.concat(ro_items, axis=ax), op), npv
        if op == 'rstack':
            return R(lambda: rso.rstack(*ro_items), op), npv
        return R(lambda: rso.cstack(*ro_items), op), npv
    if op == 'vec':
        items = [interp(t, objs, npvals, stats, func_style, vecs) for t in node[1]]
        return R(lambda: rso.vec(*[i[0] for i in items]), op), np.array([float(i[1]) for i in items])
    if op == 'diag':
        a, av = interp(node[1], objs, npvals, stats, func_style, vecs)
        k, fill = node[2], node[3]
        if fill:
            nv = np.zeros_like(av)
            rr, cc = np.indices(av.shape)
            sel = (cc - rr) == k
            nv[sel] = av[sel]
        else:
            nv = np.diag(av, k)
        return R(lambda: (rso.diag(a, k, fill) if func_style else a.diag(k, fill)), op), nv
    if op in ('tril', 'triu'):
        a, av = interp(node[1], objs, npvals, stats, func_style, vecs)
        k = node[2]
        f = np.tril if op == 'tril' else np.triu
        return R(lambda: (getattr(rso, op)(a, k) if func_style else getattr(a, op)(k)), op), f(av, k)
    raise ValueError('bad node ' + str(op))


def count_ops(node, acc):
    if not isinstance(node, list) or not node:
        return
    op = node[0]
    if op in ('var', 'const', 'hole'):
        return
    acc.append(op)
    for ch in node[1:]:
        if isinstance(ch, list):
            if ch and isinstance(ch[0], str):
                count_ops(ch, acc)
            else:
                for c2 in ch:
                    if isinstance(c2, list) and c2 and isinstance(c2[0], str):
                        count_ops(c2, acc)


def features(node, acc):
    """non-triviality features of the tree"""
    if not isinstance(node, list) or not node or not isinstance(node[0], str):
        return
    op = node[0]
    if op == 'idx':
        for s in node[2]:
            if s['t'] in ('list', 'mask', 'maskfull', 'none', 'ell'):
                acc.add('fancy_index')
            if s['t'] == 'slice' and s['v'][2] not in (None, 1):
                acc.add('stepped_slice')
            if s['t'] == 'int' and s['v'] < 0:
                acc.add('neg_index')
    if op == 'tee':
        acc.add('reused_object')
    if op == 'sum' and node[2] is not None:
        acc.add('axis_sum')
    if op in ('concat', 'rstack', 'cstack', 'vec'):
        acc.add('stack')
    if op in ('diag', 'tril', 'triu', 'trace'):
        acc.add('diag_family')
    for ch in node[1:]:
        if isinstance(ch, list):
            if ch and isinstance(ch[0], str):
                features(ch, acc)
            else:
                for c2 in ch:
                    features(c2, acc)


class C05(Prop):
    id = 'C05'
    level = 'exploration'
    rule = ('typed, shape-aware random expression trees (1-6 operators; leaves: dvar/rvar/ldr with random '
            'dependency masks/slices/constants incl. sparse, read-only, views, int/float32; ro and dro front '
            'ends); each operator is emitted only if NumPy accepts it on shadow arrays; after one step in four the same '
            'expression object is also read on the side (indexed, summed, transposed, reshaped, flattened - each read compared with '
            'NumPy) before the next operator uses it. Oracle: NumPy on the '
            'shadow arrays vs. the RSOME object evaluated from linear/const (raffine/affine) at two integer '
            'assignments; shapes must be identical. Non-trivial = >=2 operators and at least one of: '
            'broadcasting (operand shapes differ), rank>=3, stepped/negative/fancy index, axis sum, stacking, '
            'diag family; distinct by hash of the case IR. RSOME raising where NumPy succeeds is counted '
            '(unsupported:<op>) and is not a violation.')
    assumptions = ['values compared at two integer assignments of all variables (affine maps of integer data: '
                   'two generic points plus exact shape equality)',
                   'LDR coefficient variables are located through ldr.to_affine() after a structural check '
                   '(one fresh unit coefficient per declared dependency, zero elsewhere)']
    max_error_fraction = 0.9

    def examples(self, tier):
        return 24000 if tier == 'quick' else 800000

    def time_budget(self, tier):
        return 170 if tier == 'quick' else 3000

    def strategy(self, tier):
        return case_strategy(max_ops=6 if tier == 'quick' else 7)

    def check(self, case):
        from rsome.lp import RoAffine, DecRule
        labels = []
        m, objs = build(case)
        front = case['front']
        rand_model = m.sup_model
        dec_model = m.rc_model if front == 'ro' else m.vt_model
        nrand = rand_model.last if hasattr(rand_model, 'last') else 0
        # random-model column count
        nrand = rand_model.vars[-1].last if rand_model.vars else 0
        masks = ldr_masks(case, nrand)
        declare_adapt(case, objs, masks)
        # materialise LDRs and check their structure
        ldr_cols = {}
        nuser = dec_model.vars[-1].last
        for i, v in enumerate(case['vars']):
            if v['kind'] != 'ldr':
                continue
            y = objs[i]
            ya = y.to_affine()
            mk = masks[i]
            size = mk.shape[0]
            if isinstance(ya, RoAffine):
                L = ya.raffine.linear.toarray().reshape(size, -1, ya.raffine.linear.shape[1])
                if np.any(ya.raffine.const != 0):
                    return Outcome.fail('ldr_structure', 'LDR coefficient block has a constant part')
                cols = {}
                for r in range(size):
                    for c in range(L.shape[1]):
                        row = L[r, c]
                        nz = np.nonzero(row)[0]
                        dep = bool(mk[r, c]) if c < mk.shape[1] else False
                        if dep:
                            if len(nz) != 1 or row[nz[0]] != 1.0:
                                return Outcome.fail('ldr_structure', 'declared dependency (%d,%d) is not one unit coefficient variable' % (r, c))
                            cols[(r, c)] = int(nz[0])
                        elif len(nz):
                            return Outcome.fail('ldr_dependency', 'entry %d of an LDR depends on random component %d which was not declared' % (r, c))
                if len(set(cols.values())) != len(cols):
                    return Outcome.fail('ldr_structure', 'LDR coefficient variables are shared between entries')
                ldr_cols[i] = cols
            else:
                if mk.any():
                    return Outcome.fail('ldr_dependency', 'declared dependencies were dropped')
                ldr_cols[i] = {}
        ntot = dec_model.vars[-1].last
        stats = []
        fails = None
        results = []
        for k in (0, 1):
            xvec = np.zeros(ntot)
            zvec = np.zeros(max(nrand, 1))
            npvals = {}
            # random variables
            for i, v in enumerate(case['vars']):
                if v['kind'] == 'rvar':
                    val = _values(i, v['shape'], k)
                    npvals[i] = val
                    o = objs[i]
                    zvec[o.first:o.first + o.size] = val.ravel()
            for i, v in enumerate(case['vars']):
                if v['kind'] == 'dvar':
                    val = _values(i, v['shape'], k)
                    npvals[i] = val
                    o = objs[i]
                    xvec[o.first:o.first + o.size] = val.ravel()
                elif v['kind'] == 'ldr':
                    y = objs[i]
                    y0 = _values(i, v['shape'], k)
                    f = y.fixed
                    xvec[f.first:f.first + f.size] = y0.ravel()
                    mk = masks[i]
                    Y = np.zeros(mk.shape)
                    for (r, c), col in ldr_cols[i].items():
                        Y[r, c] = ((r * 3 + c * 5 + i + k) % 7) - 3.0
                        xvec[col] = Y[r, c]
                    npvals[i] = y0 + (Y @ zvec[:mk.shape[1]]).reshape(y0.shape)
            try:
                e, nv = interp(case['expr'], objs, npvals, stats if k == 0 else [], case.get('func_style', False),
                               (xvec, zvec))
            except Mismatch as mm:
                return Outcome.fail('%s:%s' % (mm.kind, mm.op), str(mm))
            except Unsupported:
                ops = []
                count_ops(case['expr'], ops)
                return Outcome('ok', False, stats + ['rsome_raised'])
        ops = []
        count_ops(case['expr'], ops)
        feats = set()
        features(case['expr'], feats)
        shapes = [tuple(v['shape']) for v in case['vars']]
        if len(set(shapes)) > 1:
            feats.add('mixed_shapes')
        if any(len(s) >= 3 for s in shapes):
            feats.add('rank3+')
        nt = len(ops) >= 2 and bool(feats)
        labels = ['front:' + front, 'nops:%d' % len(ops)] + ['op:' + o for o in sorted(set(ops))] + \
                 ['feat:' + f for f in sorted(feats)] + ['result:' + type(e).__name__]
        return Outcome.ok(nt, labels)


def _top(case):
    n = case['expr']
    return n[0] if isinstance(n, list) and n else '?'


PROP = C05()
