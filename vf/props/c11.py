"""C11 - all solver interfaces solve the same program and agree; failures are reported as 'no solution'."""
import numpy as np
from hypothesis import strategies as st

from vf.core import Prop, Outcome
from vf import detmodel
from vf.props import c07
from vf.quiet import quiet


@st.composite
def bbsum_case(draw):
    """exact subset sum with a penalised shortfall: min s s.t. a'x + s == b, s >= 0, x binary, b the sum of a planted subset.
    The optimum is 0 in closed form; the LP bound is 0 everywhere, so a branch-and-bound interface has to enumerate (ECOS_BB needs
    thousands of nodes but well under a second for <= 14 binaries)."""
    n = draw(st.integers(8, 14))
    a = [float(draw(st.integers(500, 999))) for _ in range(n)]
    sub = [draw(st.booleans()) for _ in range(n)]
    return {'fam': 'bbsum', 'status': 'feasible', 'front': draw(st.sampled_from(['ro', 'dro'])), 'a': a, 'sub': sub,
            'sense': draw(st.sampled_from(['min', 'max'])), 'display': False, 'log': False}


def bbsum_build(case):
    from rsome import ro, dro
    m = ro.Model() if case['front'] == 'ro' else dro.Model()
    a = np.array(case['a'])
    x = m.dvar(len(a), 'B')
    s = m.dvar()
    if case['sense'] == 'min':
        m.min(s)
    else:
        m.max(-s)
    m.st(a @ x + s == float(a @ np.array(case['sub'], dtype=float)))
    m.st(s >= 0)
    return m


@st.composite
def c11_case(draw):
    if draw(st.integers(0, 11)) == 0:
        return draw(bbsum_case())
    fam = draw(st.sampled_from(['lp', 'lp', 'milp', 'milp', 'soc', 'misoc', 'exp']))
    names = {'lp': ['abs', 'norm1', 'norminf', 'maxof'], 'milp': ['abs', 'norminf', 'maxof'],
             'soc': ['abs', 'norm2', 'square', 'sumsqr', 'quad', 'pnorm', 'power', 'gmean'],
             'misoc': ['abs', 'norm2', 'square', 'sumsqr'],
             'exp': ['exp', 'log', 'softplus', 'entropy', 'norm2', 'abs', 'sumexp']}[fam]
    cones = {'lp': False, 'milp': False, 'soc': ['rsocone'], 'misoc': ['rsocone'], 'exp': ['expcone', 'kldiv', 'rsocone']}[fam]
    c = draw(detmodel.det_case(atom_names=names, bounded_by='box', max_atoms=2, int_ok=fam in ('milp', 'misoc'), frac_int=True,
                               fronts=('ro', 'dro'), cones=cones, obj_atom_prob=0.2 if fam in ('soc', 'exp') else 0.0))
    for a in c['atoms'] + ([c['obj']['atom']] if c['obj'].get('atom') else []):
        if a['atom'] == 'pnorm' and isinstance(a.get('p'), float) and fam != 'exp':
            a['p'] = 3
    if fam in ('milp', 'misoc') and not any(t in 'IB' for t in c['vtypes']):
        vt = list(c['vtypes'])
        j = draw(st.integers(0, c['n'] - 1))
        vt[j] = draw(st.sampled_from(['I', 'B']))
        if vt[j] == 'B':
            c['bounds'][j] = draw(st.sampled_from([['free', None, None], ['box', 0.0, 1.0], ['fix', 0.0, 0.0], ['fix', 1.0, 1.0], ['box', -2.0, 3.0],
                                                   ['box', 2.0, 3.0], ['box', -3.0, -1.0]]))
            if c['bounds'][j][1] in (2.0, -3.0):
                c['bin_infeasible'] = True      # a binary whose user bounds exclude 0 and 1: the program is infeasible
            c['witness'][j] = 0.0 if c['bounds'][j][1] in (None, 0.0, -2.0) else 1.0
        else:
            b = c['bounds'][j]
            c['bounds'][j] = [b[0], float(np.floor(b[1])), float(np.ceil(b[2]))]
            c['witness'][j] = float(np.round(c['witness'][j]))
        c['vtypes'] = ''.join(vt)
        c['atoms'] = []       # keep the witness argument valid: atoms were built around the old witness
        c['cones'] = []
        c['lin'] = []
    c['fam'] = fam
    if fam in ('milp', 'misoc') and 'B' in c['vtypes'] and draw(st.integers(0, 5)) == 0:
        j = draw(st.sampled_from([i for i, t in enumerate(c['vtypes']) if t == 'B']))
        c['bounds'][j] = draw(st.sampled_from([['box', 2.0, 3.0], ['box', -3.0, -1.0], ['lb', 2.0, None], ['ub', None, -1.0]]))
        c['bin_infeasible'] = True      # a binary whose user bounds exclude 0 and 1: the program is infeasible
    c['status'] = draw(st.sampled_from(['feasible', 'feasible', 'feasible', 'infeasible', 'unbounded']))
    if c.get('bin_infeasible'):
        c['status'] = 'infeasible'
    elif c['status'] == 'infeasible' and draw(st.integers(0, 2)) == 0:
        # a row without any term whose constant cannot hold (all-zero data row with a positive demand): 0 <= -1 / 0 >= 2
        sense = draw(st.sampled_from(['le', 'ge']))
        c['lin'].append({'A': [[0.0] * c['n']], 'b': [-1.0 if sense == 'le' else 2.0], 'sense': sense, 'style': 0})
        c['empty_row'] = True
    elif c['status'] == 'infeasible':
        row = detmodel._row(draw, c['n'])
        mid = float(np.array(row) @ np.array(c['witness']))
        c['lin'].append({'A': [row], 'b': [mid], 'sense': 'le', 'style': 0})
        c['lin'].append({'A': [row], 'b': [mid + draw(st.sampled_from([0.5, 1.0, 3.0]))], 'sense': 'ge', 'style': draw(st.integers(0, 3))})
    c['free_type'] = draw(st.sampled_from(['C', 'C', 'I'])) if fam in ('milp', 'misoc') else 'C'
    c['display'] = draw(st.integers(0, 11)) == 0
    c['log'] = draw(st.integers(0, 11)) == 0
    return c


def small_integer_part(case):
    """ECOS_BB runs with mi_max_iters=1e8 and can take minutes on unlucky instances: it is only asked to solve programs with at
    most two integer columns of at most five values each"""
    cnt = 0
    for j, t in enumerate(case['vtypes']):
        if t == 'C':
            continue
        cnt += 1
        kind, lo, hi = case['bounds'][j]
        if t == 'I' and (lo is None or hi is None or hi - lo > 4):
            return False
    return cnt <= 2


def interfaces(case):
    from rsome import grb_solver, eco_solver, ort_solver
    fam = case['fam']
    # ECOS_BB is not exercised: with RSOME's mi_max_iters=1e8 it ran for more than ten minutes on a 5-column box-bounded MILP
    # without constraints (seen at seed 1), and a hang is neither a verdict nor something a time limit can turn into one
    return [i for i in _interfaces(case) if i[0] != 'ecos_bb' or fam == 'bbsum']


def _interfaces(case):
    from rsome import grb_solver, eco_solver, ort_solver
    fam = case['fam']
    if fam == 'bbsum':
        return [('default', None, True), ('gurobi', grb_solver, True), ('ortools', ort_solver, True), ('ecos_bb', eco_solver, True)]
    if fam == 'lp':
        return [('default', None, True), ('gurobi', grb_solver, True), ('ortools', ort_solver, True), ('ecos', eco_solver, True)]
    if fam == 'milp':
        out = [('default', None, True), ('gurobi', grb_solver, True), ('ortools', ort_solver, True)]
        if case['status'] != 'unbounded':
            out.append(('ecos_bb', eco_solver, False))
        return out
    if fam == 'soc':
        return [('gurobi', grb_solver, True), ('ecos', eco_solver, True)]
    if fam == 'misoc':
        return [('gurobi', grb_solver, True)] + ([('ecos_bb', eco_solver, False)] if case['status'] != 'unbounded' else [])
    return [('ecos', eco_solver, True)]


def check_formula(f, x, tol):
    """independent check of a solver vector against the compiled program"""
    x = np.asarray(x, dtype=float)
    A = f.linear
    if len(x) != A.shape[1]:
        return 'vector has %d entries, program has %d columns' % (len(x), A.shape[1])
    r = A @ x - f.const
    sc = 1 + abs(A) @ np.abs(x) + np.abs(f.const)
    for i in range(A.shape[0]):
        if f.sense[i] == 1 and abs(r[i]) > tol * sc[i]:
            return 'equality row %d violated by %.3g' % (i, abs(r[i]))
        if f.sense[i] == 0 and r[i] > tol * sc[i]:
            return 'inequality row %d violated by %.3g' % (i, r[i])
    for j in range(len(x)):
        lo, hi = f.lb[j], f.ub[j]
        if f.vtype[j] == 'B':
            lo, hi = max(lo, 0.0), min(hi, 1.0)
        if x[j] < lo - tol * (1 + abs(lo)) or x[j] > hi + tol * (1 + abs(hi)):
            return 'column %d = %.9g outside its bounds [%g, %g]' % (j, x[j], lo, hi)
        if f.vtype[j] in 'IB' and abs(x[j] - round(x[j])) > 1e-5:
            return 'integer column %d has value %.9g' % (j, x[j])
    for q in (getattr(f, 'qmat', []) or []):
        head, rest = x[int(q[0])], x[[int(v) for v in q[1:]]]
        if np.linalg.norm(rest) - head > tol * (1 + abs(head) + np.linalg.norm(rest)):
            return 'second-order cone %s violated by %.3g' % ([int(v) for v in q], np.linalg.norm(rest) - head)
    for e in (getattr(f, 'xmat', []) or []):
        xx, yy, zz = x[int(e[0])], x[int(e[1])], x[int(e[2])]
        if zz < -tol:
            return 'exponential cone %s has z=%.3g < 0' % ([int(v) for v in e], zz)
        # membership up to a perturbation of the point by the solver tolerance (z*exp(x/z) is arbitrarily steep near z = 0,
        # so a residual of the inequality itself is not a meaningful distance there)
        d = 10 * tol * (1 + max(abs(xx), abs(yy), abs(zz)))
        z2 = max(zz, 0.0) + d
        v = z2 * np.exp(min((xx - d) / z2, 700)) - (yy + d)
        if v > 0:
            return 'exponential cone %s violated by %.3g (after a %.1g perturbation)' % ([int(v_) for v_ in e], v, d)
    return None


def highs_itself_fails(f):
    """independent translation of a compiled mixed-integer program into scipy.optimize.milp (not RSOME's def_sol): True when HiGHS
    fails (infeasible / unbounded / 'solve error') with presolve on but solves it with presolve off, i.e. the failure belongs to the installed
    solver (seen: integer columns + duplicated equality rows), not to the interface code that the property is about"""
    from scipy.optimize import milp, LinearConstraint, Bounds
    vt = np.array(list(f.vtype))
    lb, ub = np.array(f.lb, dtype=float), np.array(f.ub, dtype=float)
    lb[vt == 'B'] = np.maximum(lb[vt == 'B'], 0.0)
    ub[vt == 'B'] = np.minimum(ub[vt == 'B'], 1.0)
    lb[vt != 'C'] = np.ceil(lb[vt != 'C'] - 1e-9)
    ub[vt != 'C'] = np.floor(ub[vt != 'C'] + 1e-9)
    lo = np.where(np.asarray(f.sense) == 1, f.const, -np.inf)
    out = []
    for pre in (True, False):
        r = milp(np.asarray(f.obj, dtype=float).ravel(), integrality=(vt != 'C').astype(float), bounds=Bounds(lb, ub),
                 constraints=LinearConstraint(f.linear, lo, np.asarray(f.const, dtype=float)), options={'presolve': pre})
        out.append(r.status)
    return out[0] != 0 and out[1] == 0


def scip_itself_fabricates(f):
    """independent translation of a compiled mixed-integer program into OR-Tools' SCIP (not RSOME's ort_solver): True when SCIP itself
    reports OPTIMAL for it. Used only for programs that are unbounded by construction and that HiGHS and Gurobi call unbounded: the
    fabricated optimum then belongs to the installed solver (seen: a free continuous column pushed by the objective next to integer
    columns), not to the interface code the property is about"""
    from ortools.linear_solver import pywraplp
    sv = pywraplp.Solver.CreateSolver('SCIP')
    vt = list(f.vtype)
    inf = sv.infinity()
    lb = [(-inf if v == -np.inf else float(v)) for v in f.lb]
    ub = [(inf if v == np.inf else float(v)) for v in f.ub]
    xs = []
    for j, t in enumerate(vt):
        if t == 'C':
            xs.append(sv.NumVar(lb[j], ub[j], 'v%d' % j))
        elif t == 'B':
            xs.append(sv.IntVar(max(0.0, lb[j]), min(1.0, ub[j]), 'v%d' % j))
        else:
            xs.append(sv.IntVar(lb[j], ub[j], 'v%d' % j))
    A = f.linear.tocsr()
    for i in range(A.shape[0]):
        ct = sv.Constraint(float(f.const[i]) if f.sense[i] == 1 else -inf, float(f.const[i]))
        for k in range(A.indptr[i], A.indptr[i + 1]):
            ct.SetCoefficient(xs[A.indices[k]], float(A.data[k]))
    ob = sv.Objective()
    for j, cj in enumerate(np.asarray(f.obj, dtype=float).ravel()):
        if cj:
            ob.SetCoefficient(xs[j], float(cj))
    ob.SetMinimization()
    return sv.Solve() == pywraplp.Solver.OPTIMAL


def ill_posed(results, tolv, delta=1e-6):
    """True when, for some interface that solved the program, relaxing every inequality row and every column bound by `delta`
    (the order of the solvers' feasibility tolerances) moves that same interface's optimal value by more than the comparison
    tolerance. Example: 3*(x3/2 - 1.5)**4 <= 0 pins x3 = 3 exactly, but every x3 within 0.03 is feasible to 1e-6."""
    import copy
    from rsome import grb_solver, eco_solver
    mods = {'gurobi': grb_solver, 'ecos': eco_solver}
    for name, exact, solved, got, sol, f in results:
        if not solved or name not in mods:
            continue
        f2 = copy.copy(f)
        f2.const = np.array(f.const, dtype=float)
        ineq = np.asarray(f.sense) == 0
        f2.const[ineq] += delta * (1 + np.abs(f2.const[ineq]))
        cont = np.array(list(f.vtype)) == 'C'
        f2.lb = np.array(f.lb, dtype=float)
        f2.ub = np.array(f.ub, dtype=float)
        f2.lb[cont] -= delta * (1 + np.abs(np.where(np.isfinite(f2.lb[cont]), f2.lb[cont], 0.0)))
        f2.ub[cont] += delta * (1 + np.abs(np.where(np.isfinite(f2.ub[cont]), f2.ub[cont], 0.0)))
        with quiet():
            try:
                s2 = mods[name].solve(f2, display=False, params={'TimeLimit': 30} if name == 'gurobi' else {})
            except Exception:
                continue
        if s2 is None or s2.x is None or np.isnan(s2.objval):
            continue
        if abs(s2.objval - sol.objval) > 0.5 * tolv * (1 + abs(sol.objval)):
            return True
    return False


def build(case):
    if case['fam'] == 'bbsum':
        return bbsum_build(case)
    m, x, pieces = detmodel.build(case)
    if case['status'] == 'unbounded':
        # a free column that the objective pushes to -infinity
        t = m.dvar(1, case['free_type'])
        o = dict(case['obj'])
        case2 = dict(case)
        case2['obj'] = o
        h = declare_with_extra(case2, m, x, pieces, t)
    else:
        h = detmodel.declare(case, m, x, pieces)
    return m


def declare_with_extra(case, m, x, pieces, t):
    import copy
    c = copy.deepcopy(case)
    obj = c['obj']
    c['obj'] = {'sense': 'min', 'c': [0.0] * c['n'], 'c0': 0.0}
    # declare constraints through the normal builder but replace the objective afterwards
    class _M:      # proxy swallowing the objective call
        def __init__(self, m):
            self.m = m
        def __getattr__(self, k):
            if k in ('min', 'max'):
                return lambda e: None
            return getattr(self.m, k)
    detmodel.declare(c, _M(m), x, pieces)
    base = np.array(obj['c']) @ x
    if obj['sense'] == 'min':
        m.min(base + t[0] * 1.0)
        m.st(t <= 5)
    else:
        m.max(base + t[0] * 1.0)
        m.st(t >= -5)
    return None


class C11(Prop):
    id = 'C11'
    rule = ('compiled programs of generated deterministic models (ro and dro front ends): LP, MILP (binaries/integers with arbitrary '
            'user bounds incl. fixed binaries and bounds outside [0,1]), SOCP, MISOCP, exp-cone; each made feasible and bounded, '
            'infeasible (contradictory rows) or unbounded (a free continuous or integer column pushed by the objective); display/log '
            'switched on in a tenth of the cases. Every installed interface that supports the cone types solves the same model '
            '(LP: default, Gurobi, OR-Tools, ECOS; MILP: default, Gurobi, OR-Tools; SOCP: Gurobi, ECOS; MISOCP: Gurobi; '
            'exp: ECOS). Oracle: (1) equal optimal values within tolerance and, for small MILPs, equal to brute-force '
            'enumeration; (2) each returned vector is checked against the compiled program by an independent checker (rows, senses, '
            'bounds, integrality, second-order and exponential cone membership); (3) infeasible/unbounded programs: NaN objective, '
            'x None, get() raises RuntimeError, for every interface. ECOS_BB (integer programs through ECOS) ran for minutes on a trivial box-bounded '
            'MILP, so it is exercised only on one family with a closed-form optimum: exact subset sum with penalised shortfall over 8-14 '
            'binaries (optimum 0, LP bound 0, so branch and bound has to enumerate thousands of nodes), solved through all four interfaces. '
            'Non-trivial = at least two interfaces compared and the '
            'program has an integer column, a cone, or is infeasible/unbounded; distinct by IR hash.')
    assumptions = ['CLP, CPLEX, Mosek and COPT are not installed: their interface modules cannot be exercised',
                   'tolerance 1e-6 (LP/MILP) / 2e-4 (conic) relative on values, 1e-6 / 1e-5 on residuals; ECOS numerical failures on feasible programs are skipped',
                   'the default interface reporting a feasible MILP infeasible is inconclusive when an independent scipy.milp call on the compiled program fails in the same way with presolve and succeeds without (HiGHS defect, not interface code)',
                   'a disagreement between two conic interfaces is inconclusive when relaxing rows and bounds by 1e-6 moves one interface\'s own optimal value by more than half the comparison tolerance (ill-posed program, e.g. 3*u**4 <= 0)']

    def examples(self, tier):
        return 1000 if tier == 'quick' else 25000

    def strategy(self, tier):
        return c11_case()

    def check(self, case):
        fam, status = case['fam'], case['status']
        labels = ['fam:' + fam, 'status:' + status, 'front:' + case['front']] + (['display'] if case['display'] else []) + (['log'] if case['log'] else [])
        results = []
        for name, solver, exact in interfaces(case):
            m = build(case)
            with quiet():
                m.solve(solver, display=case['display'], log=case['log']) if solver is not None else m.solve(display=case['display'], log=case['log'])
                f = m.do_math()
            sol = m.solution
            solved = sol is not None and sol.x is not None and not np.isnan(sol.objval)
            try:
                got = m.get()
                raised = False
            except RuntimeError:
                got, raised = None, True
            except Exception as ex:
                return Outcome.fail('get_raises_other:' + name, 'model.get() raised %r instead of RuntimeError' % (ex,), labels)
            if solved == raised:
                return Outcome.fail('get_inconsistent:' + name, '%s: solution %s but get() %s' % (name, 'present' if solved else 'absent', 'raised' if raised else 'returned %r' % got), labels)
            if (sol is not None) and ((sol.x is None) != bool(np.isnan(sol.objval))):
                return Outcome.fail('nan_x_mismatch:' + name, '%s: objval=%r but x is %s' % (name, sol.objval, 'None' if sol.x is None else 'a vector'), labels)
            results.append((name, exact, solved, got, sol, f))
        if status != 'feasible':
            for name, exact, solved, got, sol, f in results:
                if solved and name == 'ortools' and status == 'unbounded' and fam in ('milp', 'misoc') and \
                        all(not r[2] for r in results if r[0] != 'ortools') and len(results) >= 2 and scip_itself_fabricates(f):
                    return Outcome.inconclusive('SCIP (OR-Tools) itself reports OPTIMAL for the unbounded compiled program when called through an '
                                                'independent translation (solver defect, not interface code)', labels + ['scip_failure'])
                if solved:
                    return Outcome.fail('fabricated:%s:%s:%s' % (status, fam, name),
                                        '%s returned optimum %.9g (status %s) for a program that is %s' % (name, got, sol.status, status), labels)
            return Outcome.ok(len(results) >= 2, labels + ['iface:%d' % len(results)])
        conic = fam in ('soc', 'misoc', 'exp')
        tolv = 2e-4 if conic else 1e-6
        tolr = 1e-5 if conic else 1e-6
        ref = None
        if fam == 'bbsum':
            ref = 0.0
            labels.append('closed_form')
        if fam == 'milp':
            bf, why = c07.brute_force_milp(case)
            if bf is not None:
                ref = bf
                labels.append('brute_force')
        exact_vals = []
        for name, exact, solved, got, sol, f in results:
            if not solved:
                if name.startswith('ecos') and fam != 'bbsum':
                    labels.append('unsolved:' + name)
                    continue
                if name == 'default' and fam in ('milp', 'bbsum') and highs_itself_fails(f):
                    return Outcome.inconclusive('HiGHS reports the compiled program infeasible with presolve and solves it without (solver defect, '
                                                'reproduced with an independent scipy.milp call)', labels + ['highs_presolve_failure'])
                return Outcome.fail('no_solution:%s:%s' % (fam, name), '%s reports no solution (status %s) for a feasible bounded program' % (name, sol.status if sol else None), labels)
            if 'lose' in str(sol.status) and fam != 'bbsum':
                labels.append('inexact:' + name)
                continue
            msg = check_formula(f, sol.x, tolr)
            if msg:
                return Outcome.fail('vector:%s:%s' % (fam, name), '%s returned a vector that violates the compiled program: %s' % (name, msg), labels)
            if exact:
                exact_vals.append((name, got))
            else:
                base = ref if ref is not None else (exact_vals[0][1] if exact_vals else None)
                if base is not None:
                    sg = 1.0 if case['obj']['sense'] == 'min' else -1.0
                    if sg * (got - base) < -max(tolv, 1e-5) * (1 + abs(base)):
                        return Outcome.fail('better_than_optimal:' + name, '%s returned %.9g, better than the optimum %.9g' % (name, got, base), labels)
        if ref is not None:
            for name, got in exact_vals:
                if abs(got - ref) > tolv * (1 + abs(ref)):
                    return Outcome.fail('value_vs_enumeration:' + name, '%s returned %.9g, %s gives %.9g' % (name, got, 'the closed form' if fam == 'bbsum' else 'brute-force enumeration', ref), labels)
        for (n1, v1), (n2, v2) in zip(exact_vals, exact_vals[1:]):
            if abs(v1 - v2) > tolv * (1 + abs(v1)):
                if conic and ill_posed(results, tolv):
                    return Outcome.inconclusive('the optimal value moves by more than the comparison tolerance when rows and bounds are '
                                                'relaxed by 1e-6: agreement within tolerance is not defined for this program', labels + ['ill_posed'])
                return Outcome.fail('disagree:%s:%s-%s' % (fam, n1, n2), '%s returned %.9g but %s returned %.9g' % (n1, v1, n2, v2), labels)
        labels.append('iface:%d' % len(exact_vals))
        return Outcome.ok(len(results) >= 2 and fam != 'lp' or len(exact_vals) >= 3, labels)


PROP = C11()
