"""C04 - the dro reformulation is exact: the optimum equals the true inf-sup expectation."""
import copy

import numpy as np
from hypothesis import strategies as st

from vf.core import Prop, Outcome
from vf import dromodel as D
from vf import romodel
from vf.quiet import quiet


@st.composite
def eeq_case(draw):
    """expectation constraints written as equalities: with E(z) fixed by the ambiguity set, E(a.x + g.z + x'Gz) == rhs is a linear
    equation in x (and the worst-case expected objective is linear in x too), so the optimum is that of a small LP"""
    S = draw(st.integers(1, 3))
    nx = draw(st.integers(2, 3))
    nz = draw(st.integers(1, 2))
    mu = [draw(st.sampled_from([0.25, 0.5, 0.75])) for _ in range(nz)]
    xw = [float(draw(st.integers(0, 2))) for _ in range(nx)]
    rows = []
    for _ in range(draw(st.integers(1, 2))):
        a = [float(draw(st.integers(-2, 2))) for _ in range(nx)]
        if not any(a):
            a[0] = 1.0
        g = [float(draw(st.integers(-2, 2))) for _ in range(nz)]
        G = [[float(draw(st.sampled_from([0, 0, 1, -1]))) for _ in range(nz)] for _ in range(nx)] if draw(st.booleans()) else None
        rows.append({'a': a, 'g': g, 'G': G, 'how': draw(st.sampled_from(['eq', 'eq', 'pair', 'eq_rhs_left']))})
    return {'variant': 'eeq', 'S': S, 'nx': nx, 'nz': nz, 'mu': mu, 'xw': xw, 'rows': rows,
            'c': [float(draw(st.integers(-2, 2))) for _ in range(nx)], 'd': [float(draw(st.integers(-1, 1))) for _ in range(nz)],
            'sense': draw(st.sampled_from(['minsup', 'maxinf'])), 'width': [draw(st.sampled_from([0.25, 0.5])) for _ in range(S)]}


def check_eeq(case):
    from scipy.optimize import linprog
    from rsome import dro, E
    nx, nz, S = case['nx'], case['nz'], case['S']
    mu, xw = np.array(case['mu']), np.array(case['xw'])
    labels = ['variant:eeq', 'S:%d' % S] + ['eeq:' + r['how'] for r in case['rows']]
    m = dro.Model(S)
    x = m.dvar(nx)
    z = m.rvar(nz)
    fs = m.ambiguity()
    for s_ in range(S):
        fs[s_].suppset(z >= mu - case['width'][s_] * (s_ + 1), z <= mu + case['width'][s_])
    fs.exptset(E(z) == mu)
    c, d = np.array(case['c']), np.array(case['d'])
    obj = E(c @ x + d @ z)
    (m.minsup if case['sense'] == 'minsup' else m.maxinf)(obj, fs)
    m.st(x >= -1, x <= 3)
    A_eq, b_eq = [], []
    for r in case['rows']:
        a, g = np.array(r['a']), np.array(r['g'])
        e = a @ x + g @ z
        coef = a.copy()
        if r['G'] is not None:
            G = np.array(r['G'])
            e = e + x @ (G @ z)
            coef = coef + G @ mu
        rhs = float(coef @ xw + g @ mu)
        if r['how'] == 'eq':
            m.st(E(e) == rhs)
        elif r['how'] == 'eq_rhs_left':
            m.st(rhs == E(e))
        else:
            m.st(E(e) <= rhs, E(e) >= rhs)
        A_eq.append(coef)
        b_eq.append(rhs - float(g @ mu))
    with quiet():
        m.solve(display=False)
    sol = m.solution
    got = m.get() if sol is not None and sol.x is not None and not np.isnan(sol.objval) else None
    sg = 1.0 if case['sense'] == 'minsup' else -1.0
    res = linprog(sg * c, A_eq=np.array(A_eq), b_eq=np.array(b_eq), bounds=[(-1, 3)] * nx, method='highs')
    if res.status != 0:
        return Outcome.skip('eeq_reference_lp_status_%d' % res.status, labels)
    ref = sg * float(res.fun) + float(d @ mu)
    if got is None:
        return Outcome.fail('eeq:no_solution', 'model with expectation equalities is reported unsolved (status %s), the reference optimum is %.9g' % (
            getattr(sol, 'status', None), ref), labels)
    if abs(got - ref) > 1e-6 * (1 + abs(ref)):
        return Outcome.fail('eeq:value', 'E(...) == c constraints: reported optimum %.9g, the linear program they denote has optimum %.9g' % (got, ref), labels)
    free = sg * float(linprog(sg * c, bounds=[(-1, 3)] * nx, method='highs').fun) + float(d @ mu)
    return Outcome.ok(abs(free - ref) > 1e-9, labels)


@st.composite
def c04_case(draw):
    if draw(st.integers(0, 9)) == 0:
        return draw(eeq_case())
    kind = draw(st.sampled_from(['general', 'general', 'general', 'saa', 'single']))
    if kind == 'general':
        c = draw(D.dro_case(polyhedral=True, allow_kl=False, econs=True, amb2_ok=True, det_obj=True))
    elif kind == 'saa':
        # singleton supports, fixed probabilities, no expectation sets: the sample-average problem
        c = draw(D.dro_case(polyhedral=True, allow_kl=False, allow_lift=False))
        for s in c['supports']:
            s['pieces'] = [{'t': 'box', 'lo': list(s['centre']), 'hi': list(s['centre']), 'style': 'point'}]
        S = c['S']
        ph = c['prob'].get('p') or c['prob'].get('phat') or [1.0 / S] * S
        if c['prob']['t'] == 'box':
            ph = [(a + b) / 2 for a, b in zip(c['prob']['lo'], c['prob']['hi'])]
            ph = [v / sum(ph) for v in ph]
        c['prob'] = {'t': 'fixed', 'p': ph}
        c['exps'] = []
        D.fill_constants(c)
    else:
        # one scenario, no expectation information: the dro model is the ro model
        c = draw(D.dro_case(polyhedral=True, allow_kl=False, max_scen=1, allow_lift=False))
        c['exps'] = []
    c['variant'] = kind
    return c


def saa_value(case):
    """direct sample-average LP (scipy) for singleton supports and fixed p"""
    from scipy.optimize import linprog
    S, nx, ny = case['S'], case['nx'], case['ny']
    mask = np.array(case['ymask']).reshape(ny, case['nz'] + case['nu']).astype(bool) if ny else None
    pts = [np.array(s['centre'], dtype=float) for s in case['supports']]
    gidx = [D.event_index(case, 0), D.event_index(case, 1)]
    ent = []
    pos = nx
    for k in range(ny):
        idx_k, ev_k = gidx[D.group_of(case, k)]
        deps = [j for j in range(case['nz']) if mask[k, j]]
        ent.append((pos, idx_k, deps))
        pos += len(ev_k) * (1 + len(deps))
    nE, per = 1, pos - nx                     # rule variables occupy [nx, pos)
    nv = pos + S
    sign = 1.0 if case['obj']['kind'] == 'minsup' else -1.0
    p = np.array(case['prob']['p'])

    def ycoef(s):
        R = np.zeros((ny, nv))
        for k in range(ny):
            base, idx_k, deps = ent[k]
            b0 = base + idx_k[s] * (1 + len(deps))
            R[k, b0] = 1
            for q, j in enumerate(deps):
                R[k, b0 + 1 + q] = pts[s][j]
        return R
    A, b = [], []
    for row in case['cons']:
        sg = 1.0 if row['sense'] == 'le' else -1.0
        for s in range(S):
            coef = np.zeros(nv)
            coef[:nx] = row['a0']
            if ny:
                coef += np.array(row['b']) @ ycoef(s)
            const = float(np.array(row['c'])[:case['nz']] @ pts[s] + row['c0'])
            A.append(sg * coef); b.append(-sg * const)
    for s in range(S):
        for pc in case['obj']['pieces']:
            coef = np.zeros(nv)
            coef[:nx] = pc['d0']
            if ny:
                coef += np.array(pc['e']) @ ycoef(s)
            const = float(np.array(pc['f'])[:case['nz']] @ pts[s] + pc['f0'])
            r = sign * coef
            r[nx + nE * per + s] = -1.0
            A.append(r); b.append(-sign * const)
    cost = np.zeros(nv)
    cost[nx + nE * per:] = p
    bounds = [(case['xlo'][i], case['xhi'][i]) for i in range(nx)] + [(None, None)] * (nE * per + S)
    res = linprog(cost, A_ub=np.array(A), b_ub=np.array(b), bounds=bounds, method='highs')
    if res.status != 0:
        return None
    return sign * float(res.fun)


class C04(Prop):
    id = 'C04'
    rule = ('dro models as in C03 restricted to the statement\'s domain: polytope supports (incl. singletons and lifted norm balls), '
            'polyhedral expectation and probability sets, affine / max-of-affine (min-of-affine for maxinf) integrands, event-wise '
            'static and affinely adaptive decisions, expectation constraints (E(affine), E(maxof/minof)) and robust rows over the default set, '
            'a second ambiguity set (forall) or a plain support (forall(<constraints>)), min/max of a deterministic expression. Oracle: independent min-max - inner problem = primal moment LP over support '
            'vertices (exact for convex piecewise-affine integrands), outer problem = cutting planes over the decisions with '
            'scipy HiGHS (objective cuts and one cut per violated expectation constraint at its own worst distribution); compared with model.get() in both directions. Two special families with their own direct oracles: '
            'singleton supports + fixed probabilities vs the sample-average LP; one scenario without expectation sets vs the same '
            'model built with the ro front end. Non-trivial = worst-case value differs from the centre-distribution value by '
            '> 1e-4 (general) / more than one scenario or piece (saa); distinct by IR hash.')
    assumptions = ['tolerance 1e-6(1+|ref|)', 'cutting planes not converging in 60 rounds / artificial bounds on rule coefficients active -> inconclusive']

    def examples(self, tier):
        return 1500 if tier == 'quick' else 40000

    def time_budget(self, tier):
        return 170 if tier == 'quick' else 1700

    def strategy(self, tier):
        return c04_case()

    def check(self, case):
        if case['variant'] == 'eeq':
            return check_eeq(case)
        labels = ['variant:' + case['variant'], 'S:%d' % case['S'], 'prob:' + case['prob']['t'], 'obj:' + case['obj']['kind'],
                  'pieces:%d' % len(case['obj']['pieces']), 'exps:%d' % len(case['exps'])]
        if case['ny'] and np.any(case['ymask']):
            labels.append('affine_adapt')
        if case['nu']:
            labels.append('lifted')
        if case.get('amb2'):
            labels.append('amb2')
        for r in case['cons']:
            if r.get('E'):
                labels.append('Erow:pw' if r.get('alt') else 'Erow:vector' if r.get('vec') else 'Erow:affine')
            if r.get('amb'):
                labels.append('forall_amb2')
            if r.get('fsupp'):
                labels.append('forall_support')
        m, h = D.build(case)
        val = D.solve(m, None)
        ref, info = D.reference_optimum(case)
        if ref is None:
            if val is None:
                return Outcome.skip('both_unsolved', labels)
            return Outcome.inconclusive('reference:' + str(info), labels)
        if val is None:
            stt = getattr(m.solution, 'status', None)
            if stt in (2, 3):
                return Outcome.fail('no_solution:%s' % stt, 'RSOME reports status %s but the inf-sup problem has value %.9g' % (stt, ref), labels)
            return Outcome.inconclusive('solver_status', labels)
        tol = 1e-6 * (1 + abs(ref))
        if abs(val - ref) > tol:
            better = (val < ref) if case['obj']['kind'] in ('minsup', 'min') else (val > ref)
            tag = 'unsafe' if better else 'conservative'
            return Outcome.fail('%s:%s:%s' % (tag, case['prob']['t'], 'exps' if case['exps'] else 'noexp'),
                                'model.get()=%.9g but the inf-sup optimum is %.9g (%s by %.3g)' % (val, ref, tag, abs(val - ref)), labels)
        if case['variant'] == 'saa':
            sv = saa_value(case)
            if sv is not None and abs(val - sv) > tol:
                return Outcome.fail('saa', 'model.get()=%.9g but the sample-average LP gives %.9g' % (val, sv), labels)
            return Outcome.ok(case['S'] > 1 or len(case['obj']['pieces']) > 1, labels + (['saa_checked'] if sv is not None else []))
        if case['variant'] == 'single' and len(case['obj']['pieces']) == 1 and not case['nu']:
            # the same model through ro
            s0 = {'nz': case['nz'], 'nu': 0, 'centre': case['supports'][0]['centre'],
                  'pieces': [dict(p, style='bounds') if p.get('style') == 'point' else p for p in case['supports'][0]['pieces']]}
            pc = case['obj']['pieces'][0]
            rc = {'nx': case['nx'], 'ny': case['ny'], 'nz': case['nz'], 'nu': 0, 'ymask': case['ymask'], 'sets': [s0],
                  'cons': [{'set': None, 'sense': r['sense'], 'rows': [{'a0': r['a0'], 'A': [[0.0] * case['nz']] * case['nx'], 'b': r['b'],
                                                                          'c': r['c'], 'c0': r['c0']}], 'style': 0} for r in case['cons']],
                  'xlo': case['xlo'], 'xhi': case['xhi'],
                  'obj': {'kind': 'minmax' if case['obj']['kind'] == 'minsup' else 'maxmin', 'd0': pc['d0'], 'D': [[0.0] * case['nz']] * case['nx'],
                          'e': pc['e'], 'f': pc['f'], 'f0': pc['f0'], 'style': 0},
                  'set_arg': 'list', 'adapt_style': 'entry', 'xbound_style': 'bounds'}
            mr, hr = romodel.build(rc)
            rv = romodel.solve(mr, None)
            if rv is not None and abs(rv - val) > tol:
                return Outcome.fail('ro_vs_dro', 'single-scenario dro model gives %.9g, the same model through ro gives %.9g' % (val, rv), labels)
            labels.append('ro_checked')
        x, y0, Y = info['x'], info['y0'], info['Y']
        if info.get('erow_active'):
            labels.append('Erow_active')
        nt = abs(ref - D.centre_value(case, x, y0, Y)) > 1e-4 or bool(info.get('erow_active'))
        return Outcome.ok(nt, labels)


PROP = C04()
