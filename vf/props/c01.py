"""C01 - robust solutions are feasible for every realisation of the attached uncertainty set."""
import numpy as np

from vf.core import Prop, Outcome
from vf import rosets, romodel


def check_solution(case, x, y0, Y, objval, kind):
    """independent worst-case test of every robust row; returns (failure or None, n_active, labels)"""
    tolscale = 1e-6 if kind == 'lp' else 3e-5
    active = 0
    labels = []
    nonexact = 0

    def test(row, s, sgn, rhs, what):
        """checks sgn*(row) <= rhs for all members; returns failure message or None"""
        nonlocal active, nonexact
        k, g = romodel.row_parts(row, x, y0, Y)
        k, g = sgn * k, sgn * g
        cands = []
        val, w, exact = rosets.maximise(s, g)
        if w is not None:
            cands.append(np.asarray(w, dtype=float))
        if not exact:
            nonexact += 1
        for w in cands:
            wi = rosets.pull_in(s, w, 1e-9)
            if rosets.violation(s, wi) > 1e-9:
                wi = rosets.pull_in(s, w, 1e-6)
                if rosets.violation(s, wi) > 1e-9:
                    continue
            resid = k + g @ wi - rhs
            scale = 1 + abs(k) + float(np.abs(g) @ np.abs(wi)) + abs(rhs)
            if resid > tolscale * scale:
                return '%s violated by %.3g at the member w=%s (row value %.6g, allowed %.6g)' % (
                    what, resid, np.round(wi, 6).tolist(), k + g @ wi, rhs)
            if abs(resid) <= 1e-5 * scale and np.linalg.norm(wi - rosets.centre_w(s)) > 1e-6:
                active += 1
        return None

    for ci, con in enumerate(case['cons']):
        s = case['sets'][con['set'] if con['set'] is not None else 0]
        for ri, row in enumerate(con['rows']):
            for sgn, on in ((1.0, con['sense'] in ('le', 'eq')), (-1.0, con['sense'] in ('ge', 'eq'))):
                if not on:
                    continue
                msg = test(row, s, sgn, 0.0, 'constraint %d row %d (%s)' % (ci, ri, con['sense']))
                if msg:
                    return ('row:%s:%s' % (con['sense'], '+'.join(rosets.families_of(s))), msg), active, labels
    o = case['obj']
    if o.get('extra'):
        labels.append('piecewise_objective')
    for orow in romodel.obj_rows(case):
        if o['kind'] == 'minmax':
            msg = test(orow, case['sets'][0], 1.0, objval, 'reported worst-case objective')
            if msg:
                return ('obj:minmax:' + '+'.join(rosets.families_of(case['sets'][0])), msg), active, labels
        elif o['kind'] == 'maxmin':
            msg = test(orow, case['sets'][0], -1.0, -objval, 'reported worst-case objective (maxmin)')
            if msg:
                return ('obj:maxmin:' + '+'.join(rosets.families_of(case['sets'][0])), msg), active, labels
    # cheap extra witnesses: sampled members
    for ci, con in enumerate(case['cons']):
        s = case['sets'][con['set'] if con['set'] is not None else 0]
        mem = rosets.sample_members(s, 12, 1000 + ci)
        for row in con['rows']:
            k, g = romodel.row_parts(row, x, y0, Y)
            for w in mem:
                v = k + g @ w
                scale = 1 + abs(k) + float(np.abs(g) @ np.abs(w))
                bad = (con['sense'] == 'le' and v > tolscale * scale) or (con['sense'] == 'ge' and -v > tolscale * scale) \
                    or (con['sense'] == 'eq' and abs(v) > tolscale * scale)
                if bad:
                    return ('row:%s:%s' % (con['sense'], '+'.join(rosets.families_of(s))),
                            'constraint %d (%s) has value %.6g at sampled member %s' % (ci, con['sense'], v, np.round(w, 6).tolist())), active, labels
    if nonexact:
        labels.append('witness_only_rows')
    return None, active, labels


class C01(Prop):
    id = 'C01'
    rule = ('ro models generated around a witness decision (feasible/bounded by construction): 1-4 static x, 0-3 LDR '
            'entries with random dependency masks, 1-4 random components (+ lifted budget sets), 1-3 uncertainty sets '
            '(box/inf-norm/1-norm/ellipsoid/polytope/equality/p-norm/KL/budget and intersections), robust <=,>=,== rows '
            'with bilinear x*z terms in 5 spellings, per-constraint forall sets, min/max/minmax/maxmin. Oracle: '
            'independent maximiser of each row over its set (HiGHS LP / hand-built ECOS cone program / closed-form dual '
            'norm / 1-d KL dual / SLSQP witness), witness re-verified by a membership predicate, row evaluated by NumPy '
            'from the IR at x.get(), y.get(), y.get(z). Non-trivial = solved to optimality and at least one robust row '
            '(or the worst-case objective) is active at a worst-case point that is not the set centre; distinct by IR hash.')
    assumptions = ['solver tolerance: residual <= 1e-6*(scale) for LP counterparts, 3e-5*(scale) when a cone solver is involved',
                   'intersections containing a p-norm or KL piece are attacked by SLSQP witnesses only (sound, weaker)',
                   'models RSOME reports as infeasible/unbounded are skipped (counted)']
    crash_is_violation = False

    def examples(self, tier):
        return 1600 if tier == 'quick' else 60000

    def strategy(self, tier):
        return romodel.ro_case()

    def check(self, case):
        m, h = romodel.build(case)
        solver, kind = romodel.pick_solver(case, case.get('solver', 'auto'))
        val = romodel.solve(m, solver)
        fams = sorted(set(t for s in case['sets'] for t in rosets.families_of(s)))
        labels = ['obj:' + case['obj']['kind'], 'kind:' + kind] + ['fam:' + f for f in fams]
        ymask = np.array(case['ymask'])
        labels.append('ldr:' + ('none' if case['ny'] == 0 else 'static' if not ymask.any() else
                                'full' if ymask.all() else 'partial'))
        if val is None:
            return Outcome.skip('not_optimal', labels)
        x, y0, Y, nanpat = romodel.read_solution(case, h)
        fail, active, lab2 = check_solution(case, x, y0, Y, val, kind)
        labels += lab2
        for con in case['cons']:
            labels.append('sense:' + con['sense'])
        if fail:
            return Outcome.fail(fail[0], fail[1], labels)
        return Outcome.ok(active > 0, sorted(set(labels)))


PROP = C01()
