"""C17 - misuse fails loudly and models do not interfere with each other."""
import numpy as np
from hypothesis import strategies as st

from vf.core import Prop, Outcome
from vf import romodel, detmodel
from vf import dromodel as D
from vf.props import c06
from vf.quiet import quiet

MISUSE = ['foreign_var_constraint', 'foreign_var_mixed_expr', 'foreign_var_objective', 'foreign_constraint', 'foreign_set_forall',
          'foreign_set_minmax', 'foreign_rvar_in_expr', 'foreign_ambiguity_objective', 'foreign_ambiguity_forall', 'foreign_support_constraint',
          'objective_redefined', 'objective_nonscalar', 'read_unsolved_var', 'read_unsolved_model', 'read_infeasible', 'ambiguity_after_constraints',
          'foreign_ldr', 'foreign_expectation', 'foreign_probability',
          'foreign_adapt_first', 'foreign_adapt_second', 'foreign_adapt_entry', 'foreign_concat', 'foreign_rstack', 'foreign_cstack', 'foreign_vec',
          'foreign_concat_expr', 'foreign_rvar_concat',
          'foreign_concat_rev', 'foreign_rstack_rev', 'foreign_cstack_rev', 'foreign_vec_rev', 'foreign_concat_expr_rev', 'foreign_rvar_concat_rev',
          'foreign_var_plus_convex', 'foreign_var_plus_convex_rev', 'foreign_convex_of_var', 'foreign_convex_bound_by_var', 'foreign_convex_objective',
          'foreign_piecewise_piece', 'foreign_piecewise_objective', 'foreign_expected_piecewise', 'foreign_scaled_convex_plus_var',
          'objective_redefined_after_zero', 'objective_redefined_after_constant',
          'foreign_expcone_x', 'foreign_expcone_y', 'foreign_expcone_z', 'foreign_rsocone_x', 'foreign_rsocone_y',
          'foreign_pexp_scale', 'foreign_quad_plus_var', 'foreign_gmean_bound', 'foreign_exp_bound',
          'foreign_piecewise_biaffine_piece', 'foreign_piecewise_biaffine_objective', 'foreign_scenario_set_adapt',
          'foreign_rvar_coefficient_query', 'foreign_rvar_assign_eval',
          'read_infeasible_ecos', 'read_infeasible_ortools', 'read_infeasible_gurobi', 'read_unbounded_ecos', 'read_unbounded_gurobi']


@st.composite
def model_ir(draw):
    k = draw(st.sampled_from(['det', 'ro', 'dro']))
    if k == 'det':
        return {'k': 'det', 'c': draw(c06.c06_case())}
    if k == 'ro':
        return {'k': 'ro', 'c': draw(romodel.ro_case(max_cons=2))}
    return {'k': 'dro', 'c': draw(D.dro_case(polyhedral=True, allow_kl=False, max_scen=3))}


@st.composite
def params_case(draw):
    """solver parameters given to one solve() must not reach another model: A is solved through Gurobi with a parameter that
    stops the search early, then the knapsack B is solved without parameters and must reach its brute-force optimum"""
    n = draw(st.integers(6, 10))
    return {'mode': 'params', 'n': n, 'w': [draw(st.integers(3, 15)) for _ in range(n)], 'v': [draw(st.integers(5, 40)) for _ in range(n)],
            'cap_frac': draw(st.sampled_from([0.3, 0.5, 0.6])), 'param': draw(st.sampled_from([['SolutionLimit', 1], ['NodeLimit', 0], ['Heuristics', 0.0],
                                                                                                   ['IterationLimit', 0], ['BestObjStop', 0.0]])),
            'front': draw(st.sampled_from(['ro', 'dro']))}


def check_params(case):
    import itertools
    from rsome import ro, dro, grb_solver
    n, w, v = case['n'], np.array(case['w'], dtype=float), np.array(case['v'], dtype=float)
    cap = float(np.floor(case['cap_frac'] * w.sum()))
    labels = ['mode:params', 'param:' + case['param'][0]]

    def knap():
        m = ro.Model() if case['front'] == 'ro' else dro.Model()
        x = m.dvar(n, 'B')
        m.max(v @ x)
        m.st(w @ x <= cap)
        return m, x
    best = max(float(v @ np.array(b)) for b in itertools.product((0, 1), repeat=n) if w @ np.array(b) <= cap)
    mA, xA = knap()
    with quiet():
        mA.solve(grb_solver, display=False, params={case['param'][0]: case['param'][1]})
    mB, xB = knap()
    with quiet():
        mB.solve(grb_solver, display=False)
    try:
        got = mB.get()
    except Exception as ex:
        return Outcome.fail('params_leak:no_solution', 'after another model was solved with params=%r, a model solved without parameters has no '
                            'solution (%r); its optimum is %g' % (dict([case['param']]), ex, best), labels)
    if abs(got - best) > 1e-6 * (1 + abs(best)):
        return Outcome.fail('params_leak:value', 'after another model was solved with params=%r, a knapsack solved without parameters reports '
                            '%g; brute force gives %g' % (dict([case['param']]), got, best), labels)
    return Outcome.ok(True, labels)


@st.composite
def c17_case(draw):
    if draw(st.integers(0, 11)) == 0:
        return draw(params_case())
    if draw(st.integers(0, 2)) == 0:
        fronts = draw(st.sampled_from([('ro', 'ro'), ('ro', 'dro'), ('dro', 'ro'), ('dro', 'dro')]))
        return {'mode': 'misuse', 'which': draw(st.sampled_from(MISUSE)), 'fronts': list(fronts), 'n': draw(st.integers(1, 3)),
                'when': draw(st.sampled_from(['fresh', 'after_solve']))}
    return {'mode': 'isolation', 'A': draw(model_ir()), 'B': draw(model_ir()),
            'order': draw(st.sampled_from(['A B sA sB', 'A B sB sA', 'A sA B sB sA', 'B A sA sB sA', 'A B sA sB sA sB', 'A sA B sA sB'])),
            'nested': draw(st.booleans())}


# ----------------------------------------------------------------------------- isolation
def build_ir(ir):
    if ir['k'] == 'det':
        c = ir['c']
        m, x, pieces = detmodel.build(c)
        detmodel.declare(c, m, x, pieces)
        solver, kind = c06.solver_choice(c)
        return m, solver, kind
    if ir['k'] == 'ro':
        m, h = romodel.build(ir['c'])
        solver, kind = romodel.pick_solver(ir['c'])
        return m, solver, kind
    m, h = D.build(ir['c'])
    solver, kind = D.pick_solver(ir['c'])
    return m, solver, kind


def solve_val(m, solver):
    with quiet():
        m.solve(solver, display=False)
    sol = m.solution
    if sol is None or sol.x is None or np.isnan(sol.objval) or 'lose' in str(sol.status):
        return None
    return m.get()


def alone(ir):
    m, solver, kind = build_ir(ir)
    return solve_val(m, solver), kind


# ----------------------------------------------------------------------------- misuse
def make(front, n, scen=2):
    from rsome import ro, dro
    if front == 'ro':
        m = ro.Model()
        x = m.dvar(n)
        z = m.rvar(n)
        y = m.ldr(n)
        return {'m': m, 'x': x, 'z': z, 'y': y, 'front': 'ro'}
    m = dro.Model(scen)
    x = m.dvar(n)
    z = m.rvar(n)
    fs = m.ambiguity()
    fs.suppset(abs(z) <= 1)
    return {'m': m, 'x': x, 'z': z, 'fs': fs, 'front': 'dro'}


def complete(M):
    """give the model a harmless objective and constraints so that solve() would work without the misuse"""
    from rsome import E
    m, x, z = M['m'], M['x'], M['z']
    if M['front'] == 'ro':
        if m.obj is None:
            m.minmax(x.sum() + z.sum(), abs(z) <= 1)
        m.st(x >= 0, x <= 1)
    else:
        if m.obj is None:
            m.minsup(E(x.sum() + z.sum()), M['fs'])
        m.st(x >= 0, x <= 1)


def readable(M):
    """after solve(): can a result be read?"""
    m = M['m']
    with quiet():
        if M.get('conic'):
            from rsome import eco_solver
            m.solve(eco_solver, display=False)
        else:
            m.solve(display=False)
    v = m.get()
    M['x'].get()
    return v


def misuse(case):
    """performs the misuse; returns a description if it went through solve() and results are readable, None if it raised"""
    import rsome as rso
    from rsome import ro, dro, E
    w, n = case['which'], case['n']
    f1, f2 = case['fronts']
    A, B = make(f1, n), make(f2, n)
    mA, xA, zA = A['m'], A['x'], A['z']
    if case.get('control'):
        # positive control: the 'other' objects belong to the same model, so the same calls are legitimate and must go through
        B = dict(A, x=mA.dvar(n))
        if f1 == 'ro':
            B['y'] = mA.ldr(n)
    xB, zB = B['x'], B['z']
    if case['when'] == 'after_solve' and w not in ('read_unsolved_var', 'read_unsolved_model', 'ambiguity_after_constraints', 'objective_redefined'):
        complete(B)
        with quiet():
            B['m'].solve(display=False)
    if w == 'foreign_var_constraint':
        mA.st(xB <= 1)
    elif w == 'foreign_var_mixed_expr':
        mA.st(xA + xB <= 1)
    elif w == 'foreign_var_objective':
        (mA.min if f1 == 'ro' else mA.min)(xB.sum())
    elif w == 'foreign_constraint':
        c = (xB.sum() <= 1)
        mA.st(c)
    elif w == 'foreign_set_forall':
        c = (xA @ zA <= 1)
        if f1 == 'ro':
            c = c.forall(abs(zB) <= 1)
        else:
            c = c.forall(B['fs'] if f2 == 'dro' else [abs(zB) <= 1])
        mA.st(c)
    elif w == 'foreign_set_minmax':
        if f1 == 'ro':
            mA.minmax(xA @ zA, abs(zB) <= 1)
        else:
            mA.minsup(E(xA @ zA), B['fs'] if f2 == 'dro' else [abs(zB) <= 1])
    elif w == 'foreign_rvar_in_expr':
        mA.st(xA @ zB <= 1)
    elif w == 'foreign_ambiguity_objective':
        if f1 != 'dro' or f2 != 'dro':
            return None
        mA.minsup(E(xA @ zA), B['fs'])
    elif w == 'foreign_ambiguity_forall':
        if f1 != 'dro' or f2 != 'dro':
            return None
        mA.st((xA @ zA <= 1).forall(B['fs']))
    elif w == 'foreign_support_constraint':
        if f1 != 'dro':
            return None
        fs = A['fs']
        fs.suppset(abs(zB) <= 1)
    elif w == 'foreign_expectation':
        if f1 != 'dro' or f2 != 'dro':
            return None
        A['fs'].exptset(E(zB) == 0)
    elif w == 'foreign_probability':
        if f1 != 'dro' or f2 != 'dro':
            return None
        A['fs'].probset(B['m'].p == 0.5)
    elif w == 'foreign_ldr':
        if f1 != 'ro' or f2 != 'ro':
            return None
        yB = B['y']
        mA.st(yB + xA <= 1)
    elif w in ('foreign_adapt_first', 'foreign_adapt_second', 'foreign_adapt_entry'):
        # a decision rule of A made to depend on a random variable of B, as the first adapt() call, after a legitimate one,
        # or entry by entry
        if n == 1 and w != 'foreign_adapt_first':
            return None                  # a second adapt() on the only entry is a redefinition whatever the operand
        yA = A['y'] if f1 == 'ro' else mA.dvar(n)
        A['y2'] = yA
        if w == 'foreign_adapt_second':
            yA.adapt(zA[0])
            yA.adapt(zB[n - 1])
        elif w == 'foreign_adapt_entry':
            yA[0].adapt(zA[0])
            yA[n - 1].adapt(zB[0])
        else:
            yA.adapt(zB)
        mA.st(yA <= 5, yA >= -5)
    elif w.replace('_rev', '') in ('foreign_concat', 'foreign_rstack', 'foreign_cstack', 'foreign_vec', 'foreign_concat_expr'):
        # stacking helpers given operands of two models, own operand first or last (the result takes the model of one of them)
        p, q = (xB, xA) if w.endswith('_rev') else (xA, xB)
        w0 = w.replace('_rev', '')
        if w0 == 'foreign_concat':
            e = rso.concat((p, q))
        elif w0 == 'foreign_rstack':
            e = rso.rstack(p, q)
        elif w0 == 'foreign_cstack':
            e = rso.cstack(p.reshape((n, 1)), q.reshape((n, 1)))
        elif w0 == 'foreign_vec':
            e = rso.vec(p[0], q[0])
        else:
            e = rso.concat((2 * p + 1, q - 1))
        mA.st(e <= 5)
        mA.st(xA <= 1)
    elif w in ('foreign_rvar_concat', 'foreign_rvar_concat_rev'):
        e = rso.concat((zB, zA)) if w.endswith('_rev') else rso.concat((zA, zB))
        mA.st(xA.sum() + e.sum() <= 100)
    elif w.startswith(('foreign_expcone', 'foreign_rsocone', 'foreign_kldiv', 'foreign_pexp', 'foreign_quad', 'foreign_gmean', 'foreign_exp_')):
        # multi-argument atoms / cone constraints with one argument taken from the other model
        a0, a1 = xA[0], (xA[n - 1] if n > 1 else xA[0])
        b0 = xB[0]
        con = {'foreign_expcone_x': lambda: rso.expcone(a0 + 3, b0, a1 + 1), 'foreign_expcone_y': lambda: rso.expcone(b0 + 3, a0, a1 + 1),
               'foreign_expcone_z': lambda: rso.expcone(a0 + 3, a1, b0 + 1), 'foreign_rsocone_x': lambda: rso.rsocone(xB, a0 + 2, a1 + 2),
               'foreign_rsocone_y': lambda: rso.rsocone(xA, b0 + 2, a1 + 2),
               'foreign_pexp_scale': lambda: rso.pexp(a0, b0 + 1) <= 5, 'foreign_quad_plus_var': lambda: rso.quad(xA, np.eye(n)) + xB.sum() <= 5,
               'foreign_gmean_bound': lambda: rso.gmean(xA + 1) >= b0, 'foreign_exp_bound': lambda: rso.exp(a0) <= b0 + 3}[w]()
        mA.st(con)
        A['conic'] = True
    elif w == 'foreign_var_plus_convex':
        mA.st(abs(xA) + xB <= 1)
    elif w == 'foreign_var_plus_convex_rev':
        mA.st(xB + rso.norm(xA) <= 1)
    elif w == 'foreign_scaled_convex_plus_var':
        mA.st(2 * rso.norm(xA, 1) - 3 * xB.sum() + 1 <= 4)
    elif w == 'foreign_convex_of_var':
        mA.st(abs(xB) <= 1)
    elif w == 'foreign_convex_bound_by_var':
        mA.st(abs(xA) <= xB)
    elif w == 'foreign_convex_objective':
        mA.min(rso.norm(xB))
    elif w == 'foreign_piecewise_piece':
        mA.st(rso.maxof(xA.sum(), xB.sum() + 1) <= 5)
    elif w == 'foreign_piecewise_biaffine_piece':
        # a piece that is bi-affine in a decision and a random variable of the other model
        mA.st(rso.maxof(xA[0], zB @ xB) <= 5)
    elif w == 'foreign_piecewise_biaffine_objective':
        if f1 == 'ro':
            mA.minmax(rso.maxof(xA[0] + zA[0], zB @ xB), abs(zA) <= 1)
        else:
            mA.minsup(E(rso.maxof(xA[0] + zA[0], zB @ xB)), A['fs'])
    elif w == 'foreign_scenario_set_adapt':
        # event-wise adaptation declared with the scenario set of the other model's ambiguity set
        if f1 != 'dro' or f2 != 'dro':
            return None
        xA.adapt(B['fs'][1])
    elif w in ('foreign_rvar_coefficient_query', 'foreign_rvar_assign_eval'):
        # coefficients / values of a decision rule of A asked for a random variable of B
        yA = A['y'] if f1 == 'ro' else mA.dvar(n)
        yA.adapt(zA)
        mA.st(yA <= 5, yA >= -5)
        if case.get('control'):
            mA.st(xB >= 0, xB <= 1)
        complete(A)
        readable(A)
        if w == 'foreign_rvar_coefficient_query':
            got = yA.get(zB)
        else:
            got = yA(zB.assign(np.ones(n)))
        return 'a query of a decision rule with a random variable of another model returned %r' % (got,)
    elif w.startswith(('read_infeasible_', 'read_unbounded_')):
        from rsome import eco_solver, ort_solver, grb_solver
        solver = {'ecos': eco_solver, 'ortools': ort_solver, 'gurobi': grb_solver}[w.split('_')[2]]
        if f1 == 'ro':
            mA.minmax(xA.sum() + zA.sum(), abs(zA) <= 1)
        else:
            mA.minsup(E(xA.sum() + zA.sum()), A['fs'])
        if w.startswith('read_infeasible'):
            mA.st(xA >= 0, xA <= 1, xA.sum() >= 2 * n + 1)
        else:
            mA.st(xA <= 1)
        with quiet():
            mA.solve(solver, display=False)
        try:
            v = mA.get()
            return 'model.get() returned %r for a model that is %s (solved through %s)' % (v, w.split('_')[1], w.split('_')[2])
        except RuntimeError:
            pass
        got = xA.get()
        return 'x.get() returned %r for a model that is %s (solved through %s)' % (got, w.split('_')[1], w.split('_')[2])
    elif w == 'foreign_piecewise_objective':
        if f1 == 'ro':
            mA.min(rso.maxof(xA.sum(), xB.sum() + 1))
        else:
            mA.minsup(E(rso.maxof(xA.sum(), xB.sum() + 1)), A['fs'])
    elif w == 'foreign_expected_piecewise':
        if f1 != 'dro' or f2 != 'dro':
            return None
        mA.minsup(E(xA.sum()), A['fs'])
        mA.st(E(rso.maxof(xB.sum() + zB.sum(), xB.sum() - 1)) <= 5)
    elif w in ('objective_redefined_after_zero', 'objective_redefined_after_constant'):
        first = 0 if w.endswith('zero') else 2.5
        if f1 == 'ro':
            mA.min(first)
            mA.min(xA.sum())
        else:
            mA.min(first)
            mA.max(xA.sum())
    elif w == 'objective_redefined':
        complete(A)
        if f1 == 'ro':
            mA.min(xA.sum())
        else:
            mA.max(xA.sum())
    elif w == 'objective_nonscalar':
        if n == 1:
            return None
        mA.min(xA * 1.0)
    elif w == 'read_unsolved_var':
        complete(A)
        xA.get()
        return 'x.get() on an unsolved model returned a value'
    elif w == 'read_unsolved_model':
        complete(A)
        mA.get()
        return 'model.get() on an unsolved model returned a value'
    elif w == 'read_infeasible':
        complete(A)
        mA.st(xA.sum() >= 2 * n + 1)
        with quiet():
            mA.solve(display=False)
        try:
            mA.get()
            return 'model.get() returned a value for an infeasible model'
        except RuntimeError:
            pass
        xA.get()
        return 'x.get() returned a value for an infeasible model'
    elif w == 'ambiguity_after_constraints':
        if f1 != 'dro':
            return None
        mA.st(xA <= 1)
        mA.ambiguity()
        return 'ambiguity() after constraints was accepted'
    if case.get('control'):
        mA.st(xB >= 0, xB <= 1)
    complete(A)
    v = readable(A)
    return 'misuse %s went through solve(); model.get() = %r' % (w, v)


class C17(Prop):
    id = 'C17'
    rule = ('(isolation) two models drawn independently from the deterministic (C06), robust (C01) and dro (C03) generators are built '
            'and solved in one process in six interleavings (A B sA sB / A B sB sA / A sA B sB sA / B A sA sB sA / ... with repeated '
            'solves of A after B was built or solved): every optimum must equal that of the same model built and solved alone. '
            '(misuse) a catalogue of 54 misuse patterns x the four ro/dro combinations of the two models x use before/after the other '
            'model was solved: foreign variable / LDR / random variable / expression / constraint / uncertainty set / ambiguity set / '
            'support, expectation or probability constraint in every API position that accepts one, adapt() on a foreign random variable (first call, '
            'after a legitimate call, entry-wise), concat/rstack/cstack/vec over two models (own operand first or last), convex atoms / piecewise maxima / E(piecewise) mixing a foreign variable in, objective redefinition, '
            'non-scalar objective, reading an unsolved or infeasible model, ambiguity() after constraints: each must raise no later '
            'than solve(), leaving no readable result; every foreign-object pattern has a positive control (same calls, operands of one model) that must go through. Non-trivial = isolation cases with >= 3 switches between the models, every '
            'misuse case; distinct by IR hash.')
    assumptions = ['tolerance 1e-6 (LP) / 2e-4 (conic) relative for isolation; cone-solver failures are skipped']

    def examples(self, tier):
        return 600 if tier == 'quick' else 10000

    def strategy(self, tier):
        return c17_case()

    def check(self, case):
        if case['mode'] == 'params':
            return check_params(case)
        if case['mode'] == 'misuse':
            labels = ['misuse:' + case['which'], 'fronts:' + '-'.join(case['fronts']), 'when:' + case['when']]
            try:
                with quiet():
                    msg = misuse(case)
            except Exception as ex:
                return Outcome.ok(True, labels + ['raised:' + type(ex).__name__])
            if msg is None:
                return Outcome.ok(False, labels + ['not_applicable'])
            return Outcome.fail('misuse_accepted:' + case['which'], msg, labels)
        labels = ['A:' + case['A']['k'], 'B:' + case['B']['k'], 'order:' + case['order'].replace(' ', '_')]
        refA, kindA = alone(case['A'])
        refB, kindB = alone(case['B'])
        models = {}
        vals = {'A': [], 'B': []}
        for tok in case['order'].split():
            if tok in ('A', 'B'):
                models[tok] = build_ir(case[tok])
            else:
                which = tok[1]
                m, solver, kind = models[which]
                vals[which].append(solve_val(m, solver))
        for which, ref, kind in (('A', refA, kindA), ('B', refB, kindB)):
            tol = 1e-6 if kind == 'lp' else 2e-4
            for v in vals[which]:
                if v is None or ref is None:
                    if kind == 'lp' and (v is None) != (ref is None):
                        return Outcome.fail('isolation:status', 'model %s: %r alone, %r when interleaved with the other model' % (which, ref, v), labels)
                    continue
                if abs(v - ref) > tol * (1 + abs(ref)):
                    return Outcome.fail('isolation:value:%s-%s' % (case['A']['k'], case['B']['k']),
                                        'model %s gives %.9g alone but %.9g when built/solved together with the other model (%s)' % (which, ref, v, case['order']), labels)
        return Outcome.ok(len(case['order'].split()) >= 5, labels)

    def run_enumerations(self, tier, seed):
        """the whole misuse catalogue x front-end pairs x before/after the other model was solved x two sizes"""
        from vf.core import case_hash
        failures, labels, nt, samples = [], {}, [], []
        count = 0
        for which in MISUSE:
            for fronts in (['ro', 'ro'], ['ro', 'dro'], ['dro', 'ro'], ['dro', 'dro']):
                for when in ('fresh', 'after_solve'):
                    for n in (1, 2):
                        case = {'mode': 'misuse', 'which': which, 'fronts': fronts, 'n': n, 'when': when}
                        out = self.check(case)
                        count += 1
                        for lb in out.labels:
                            if lb.startswith(('raised:', 'not_applicable')):
                                labels['enum:' + lb] = labels.get('enum:' + lb, 0) + 1
                        if out.status == 'fail':
                            failures.append({'bucket': 'enum:' + out.bucket, 'msg': out.msg, 'case': case, 'index': -1, 'shard': 0, 'count': 1})
                        elif out.nontrivial:
                            nt.append(case_hash(case))
                            if len(samples) < 2:
                                samples.append(case)
        # positive controls: the same calls with both operands from one model must go through, otherwise 'it raises' says nothing
        herrs = []
        for which in MISUSE:
            if not which.startswith('foreign'):
                continue
            for f in ('ro', 'dro'):
                for n in (1, 2):
                    case = {'mode': 'misuse', 'which': which, 'fronts': [f, f], 'n': n, 'when': 'fresh', 'control': True}
                    try:
                        with quiet():
                            misuse(case)
                        labels['enum:control_ok'] = labels.get('enum:control_ok', 0) + 1
                    except Exception as ex:
                        herrs.append({'msg': 'positive control of %s (%s, n=%d) raised %r' % (which, f, n, ex), 'case': case})
        labels['enumerated_misuse_cases'] = count
        seen = {}
        uniq = []
        for f in failures:
            if f['bucket'] not in seen:
                seen[f['bucket']] = 1
                uniq.append(f)
        return {'evaluations': count, 'labels': labels, 'failures': uniq, 'harness_errors': herrs, 'nt_hashes': nt, 'samples': samples,
                'coverage': {'exhaustive_misuse_catalogue': '%d patterns x 4 front-end pairs x 2 timings x 2 sizes' % len(MISUSE)}}


PROP = C17()
