"""C08 - do_math(primal=False) is a true dual: optimal values are negatives of each other."""
import numpy as np
from hypothesis import strategies as st

from vf.core import Prop, Outcome
from vf import detmodel, romodel, rosets
from vf.quiet import quiet

LPSOC = ['abs', 'norm1', 'norminf', 'norm2', 'square', 'sumsqr', 'quad', 'pnorm', 'power', 'gmean']
EXP = ['exp', 'log', 'softplus', 'entropy', 'pexp', 'plog']


@st.composite
def c08_case(draw):
    fam = draw(st.sampled_from(['det_lp', 'det_lp', 'det_soc', 'det_exp', 'ro']))
    if fam == 'ro':
        c = draw(romodel.ro_case(families=['box', 'l1', 'linf', 'poly', 'eq', 'l2', 'l2', 'pn', 'kl'], max_cons=2))
        if draw(st.booleans()):
            for s_ in c['sets']:
                for p_ in s_['pieces']:
                    if p_['t'] == 'l2':
                        p_['B'] = np.eye(s_['nz']).tolist()     # a plain ball: the compact layout of the second-order-cone dual
                        p_['r'] = draw(st.sampled_from([1.0, 1.0, 2.0]))
        if draw(st.integers(0, 1)) == 0:
            # every set a product of plain unit balls over consecutive blocks of z (several cones with unit coefficients: the
            # compact layout must not merge cone heads); the rows keep their constants, a model that becomes infeasible is skipped
            for s_ in c['sets']:
                nz_ = s_['nz']
                if s_['nu'] or nz_ < 2:
                    continue
                cut = draw(st.integers(1, nz_ - 1))
                cen = [0.0] * nz_ if draw(st.integers(0, 4)) > 0 else s_['centre']
                s_['pieces'] = [{'t': 'l2', 'c': list(cen), 'r': draw(st.sampled_from([1.0, 1.0, 1.0, 1.0, 1.0, 2.0])), 'style': 'plainsel', 'sel': sel,
                                 'B': np.eye(nz_)[sel].tolist()} for sel in (list(range(cut)), list(range(cut, nz_)))]
                s_['centre'] = list(cen)
        # deterministic convex constraints on x next to the robust rows (satisfied at the witness with slack)
        extra = []
        for _ in range(draw(st.integers(0, 2))):
            extra.append({'kind': draw(st.sampled_from(['exp', 'log', 'norm2', 'entropy', 'abs'])),
                          'a': [float(draw(st.integers(-2, 2))) for _ in range(c['nx'])], 'slack': draw(st.sampled_from([0.5, 1.0]))})
        return {'family': 'ro', 'ro': c, 'extra': extra}
    names = {'det_lp': ['abs', 'norm1', 'norminf'], 'det_soc': LPSOC, 'det_exp': LPSOC + EXP}[fam]
    cones = {'det_lp': False, 'det_soc': ['rsocone'], 'det_exp': ['rsocone', 'expcone', 'kldiv']}[fam]
    c = draw(detmodel.det_case(atom_names=names, bounded_by='dual', strict=True, max_atoms=2, cones=cones))
    # p-norm via exponential cones only in the exp family
    return {'family': fam, 'det': c}


def solve_formula(formula, solver):
    from rsome.lp import def_sol
    with quiet():
        if solver is None:
            sol = def_sol(formula, display=False)
        else:
            sol = solver.solve(formula, display=False)
    return sol


class C08(Prop):
    id = 'C08'
    rule = ('deterministic models through the ro/dro front ends (LP / SOC / exp-cone atoms composed with affine maps; every '
            'variable carries one of the bound patterns free, >=0, <=0, finite lower, finite upper, box, fixed at 0, fixed at '
            'c!=0; <=,>=,== rows; objective built as a dual-feasible combination so the LP part is bounded; strictly feasible '
            'witness) and ro models with robust rows (counterparts with multipliers in cones; half of them with plain balls as ellipsoids; 0-2 '
            'deterministic exp / log / entropy / 2-norm / abs constraints next to the robust rows). Oracle: solve do_math() and '
            'do_math(primal=False) with the same interface (HiGHS for LP, ECOS for conic, plus Gurobi for SOC) and require '
            'p + d = 0; weak duality (-d <= p) is reported separately. Non-trivial = at least one variable with a non-default '
            'bound pattern (deterministic) or a robust row (ro), and |optimum| > 1e-6; distinct by IR hash.')
    assumptions = ['|p+d| <= 1e-6(1+|p|) for LP, 2e-4(1+|p|) with a cone solver',
                   'a cone solver status other than optimal on either program is inconclusive; for LPs (HiGHS) a primal optimum '
                   'with a dual reported infeasible/unbounded is a violation']

    def examples(self, tier):
        return 2400 if tier == 'quick' else 60000

    def strategy(self, tier):
        return c08_case()

    def check(self, case):
        fam = case['family']
        labels = ['family:' + fam]
        if fam == 'ro':
            rc = case['ro']
            m, h = romodel.build(rc)
            solver, kind = romodel.pick_solver(rc)
            if case.get('extra'):
                import rsome as rso
                from rsome import eco_solver
                xw = np.array(rc['witness']['x'], dtype=float)
                xv = h['x']
                for ex in case['extra']:
                    a = np.array(ex['a'])
                    if not np.any(a):
                        continue
                    u0 = float(a @ xw)
                    if ex['kind'] == 'exp':
                        m.st(rso.exp(a @ xv - u0) <= 1.0 + ex['slack'])
                    elif ex['kind'] == 'log':
                        m.st(rso.log(a @ xv - u0 + 2.0) >= np.log(2.0) - ex['slack'])
                    elif ex['kind'] == 'entropy':
                        m.st(rso.entropy(rso.vec(a @ xv - u0 + 0.5, 0.5 * (a @ xv) - 0.5 * u0 + 0.25)) >= -5.0)
                    elif ex['kind'] == 'norm2':
                        m.st(rso.norm(rso.vec(a @ xv - u0, xv[0] - xw[0])) <= ex['slack'])
                    else:
                        m.st(abs(a @ xv - u0) <= ex['slack'])
                    labels.append('extra:' + ex['kind'])
                    if ex['kind'] in ('exp', 'log', 'entropy', 'norm2'):
                        solver, kind = eco_solver, 'conic'
            labels += ['fam:' + f for s in rc['sets'] for f in rosets.families_of(s)]
            nt_struct = True
        else:
            dc = case['det']
            m, x, pieces = detmodel.build(dc)
            detmodel.declare(dc, m, x, pieces)
            solver, kind = detmodel.solver_for(dc)
            pats = sorted(set(b[0] + ('0' if (b[1] == 0 or b[2] == 0) and b[0] != 'box' else '') for b in dc['bounds']))
            labels += ['bound:' + p for p in pats] + ['atom:' + a['atom'] for a in dc['atoms']] + ['front:' + dc['front']] + \
                ['cone:' + c['t'] for c in dc['cones']]
            nt_struct = any(b[0] != 'free' for b in dc['bounds'])
        labels.append('kind:' + kind)
        with quiet():
            primal = m.do_math()
            try:
                dual = m.do_math(primal=False)
            except Exception as ex:
                return Outcome.fail('dual_raises:%s' % type(ex).__name__, 'the primal program was formulated but do_math(primal=False) raises %r' % (ex,), labels)
        sp = solve_formula(primal, solver)
        if sp is None or sp.x is None or np.isnan(sp.objval):
            return Outcome.skip('primal_not_solved', labels)
        if 'lose' in str(sp.status):
            return Outcome.inconclusive('primal_close_to_optimal', labels)
        p = float(sp.objval)
        sd = solve_formula(dual, solver)
        if sd is None or sd.x is None or np.isnan(sd.objval):
            if kind == 'lp':
                return Outcome.fail('dual_unsolvable:lp:%s' % getattr(sd, 'status', None),
                                    'primal optimum %.9g but the dual program was reported as status %s' % (p, getattr(sd, 'status', None)), labels)
            return Outcome.inconclusive('dual_solver_status', labels)
        if 'lose' in str(sd.status):
            return Outcome.inconclusive('dual_close_to_optimal', labels)
        d = float(sd.objval)
        tol = (1e-6 if kind == 'lp' else 2e-4) * (1 + abs(p))
        if -d > p + tol:
            return Outcome.fail('weak_duality:' + kind, 'dual value %.9g exceeds primal optimum %.9g' % (-d, p), labels)
        if abs(p + d) > tol:
            return Outcome.fail('gap:' + kind, 'primal optimum %.9g, dual optimum %.9g, p+d=%.3g' % (p, d, p + d), labels)
        return Outcome.ok(nt_struct and abs(p) > 1e-6, labels)


PROP = C08()
