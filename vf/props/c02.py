"""C02 - the robust counterpart is exact: reported optimum equals the true min-max value."""
import numpy as np

from vf.core import Prop, Outcome
from vf import rosets, romodel


class C02(Prop):
    id = 'C02'
    rule = ('ro models as in C01 restricted to uncertainty sets with an exact independent maximiser (LP-representable '
            'pieces, ellipsoids and their intersections; single p-norm balls; single KL balls), feasible and bounded by '
            'construction. Oracle: the semi-infinite LP in (x, y0, Y restricted to the declared mask, t) solved without '
            'RSOME by Kelley cutting planes (master LP: scipy HiGHS; separation: the exact maximiser), compared with '
            'model.get(). Lower than the reference = unsafe, higher = conservative; both are violations. Non-trivial = '
            'reference optimum differs from the nominal optimum (sets replaced by their centres) by > 1e-3; distinct by IR hash.')
    assumptions = ['|model.get() - reference| <= 1e-6(1+|ref|) for LP counterparts, 2e-4(1+|ref|) when a cone solver is involved',
                   'cutting planes that do not converge in 80 rounds, an active artificial bound, or a cone-solver status '
                   'other than optimal are inconclusive, never violations',
                   'an LP counterpart reported infeasible/unbounded by HiGHS while the reference has an optimum is a violation']

    def examples(self, tier):
        return 640 if tier == 'quick' else 20000

    def time_budget(self, tier):
        return 170 if tier == 'quick' else 1700

    def strategy(self, tier):
        return romodel.ro_case(exact_only=True)

    def check(self, case):
        fams = sorted(set(t for s in case['sets'] for t in rosets.families_of(s)))
        ymask = np.array(case['ymask'])
        labels = ['obj:' + case['obj']['kind']] + ['fam:' + f for f in fams]
        labels.append('ldr:' + ('none' if case['ny'] == 0 else 'static' if not ymask.any() else
                                'full' if ymask.all() else 'partial'))
        ref, info = romodel.reference_optimum(case)
        if ref is None:
            return Outcome.inconclusive('reference:' + str(info), labels)
        m, h = romodel.build(case)
        solver, kind = romodel.pick_solver(case, case.get('solver', 'auto'))
        labels.append('kind:' + kind)
        val = romodel.solve(m, solver)
        if val is None:
            st = getattr(m.solution, 'status', None)
            if kind == 'lp' and st in (2, 3):
                return Outcome.fail('no_solution:lp:%s' % st,
                                    'RSOME counterpart reported status %s but the semi-infinite problem has optimum %.8g' % (st, ref), labels)
            if kind == 'conic' and 'nfeasible' in str(st):
                # ECOS calls the counterpart infeasible although the semi-infinite problem has an optimum: a verdict on the
                # program only if a second cone solver (Gurobi, second-order cones) agrees
                from rsome import grb_solver
                from vf.quiet import quiet
                kinds = set(t for s_ in case['sets'] for t in rosets.families_of(s_))
                if not (kinds & {'kl'}) and not any(isinstance(p_.get('p'), float) for s_ in case['sets'] for p_ in s_['pieces'] if p_['t'] == 'pn'):
                    try:
                        with quiet():
                            m.solve(grb_solver, display=False)
                        st2 = getattr(m.solution, 'status', None)
                    except Exception:      # noqa (licence size limit)
                        st2 = None
                    if st2 in (3, 4):
                        return Outcome.fail('no_solution:conic', 'ECOS (%s) and Gurobi (status %s) both report the counterpart infeasible, but the '
                                            'semi-infinite problem has optimum %.8g' % (st, st2, ref), labels)
            return Outcome.inconclusive('solver_status', labels)
        tol = (1e-6 if kind == 'lp' else 2e-4) * (1 + abs(ref))
        if abs(val - ref) > tol:
            o = case['obj']['kind']
            better = (val < ref) if o in ('min', 'minmax') else (val > ref)
            tag = 'unsafe' if better else 'conservative'
            return Outcome.fail('%s:%s' % (tag, '+'.join(fams)),
                                'model.get()=%.9g but the semi-infinite optimum is %.9g (%s by %.3g; %d cutting-plane rounds)' % (
                                    val, ref, tag, abs(val - ref), info['rounds']), labels)
        nt = abs(ref - info['nominal']) > 1e-3
        if nt and case['ny'] and ymask.any():
            labels.append('ldr_declared_and_nontrivial')
        return Outcome.ok(nt, labels)


PROP = C02()
