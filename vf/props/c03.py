"""C03 - dro solutions are safe for every distribution in the ambiguity set."""
import numpy as np

from vf.core import Prop, Outcome
from vf import dromodel as D


def row_check(case, x, y0, Y, tolscale):
    """no-E constraints must hold for every scenario and every realisation of the support declared by the constraint's ambiguity
    set; E constraints must hold under every distribution of that set (attacked by the moment LP over support atoms)"""
    S, ny = case['S'], case['ny']
    active = 0
    for ri, row in enumerate(case['cons']):
        view = D.row_view(case, row)
        sg = 1.0 if row['sense'] == 'le' else -1.0
        if row.get('E'):
            dirs = [(np.array(r['c'], dtype=float), r['b']) for r in D.row_pieces(row)]
            adv = D.adversary(view, x, y0, Y, dirs, lambda s, w: D.row_integrand(row, x, y0[s], Y[s], w), sg)
            if adv is None:
                continue
            wval, wts, p = adv[:3]
            scale = 1 + max(abs(r['c0']) for r in D.row_pieces(row))
            if sg * wval > 10 * tolscale * scale:
                return 'E:%s' % ('pw' if row.get('alt') else 'affine'), (
                    'expectation constraint %d (%s 0, ambiguity set %d) has expected value %.6g under a distribution of its '
                    'ambiguity set (p=%s)' % (ri, '<=' if sg > 0 else '>=', row.get('amb', 0), wval, np.round(p, 6).tolist())), active
            if abs(wval) <= 1e-5 * scale:
                active += 1
            continue
        for s in range(S):
            k = float(np.array(row['a0']) @ x + (np.array(row['b']) @ y0[s] if ny else 0.0) + row['c0'])
            g = np.array(row['c'], dtype=float) + (Y[s].T @ np.array(row['b']) if ny else 0.0)
            worst = D.support_max(view['supports'][s], sg * g)
            if worst is None:
                continue                 # the independent maximiser failed: no verdict for this row/scenario
            resid = sg * k + worst
            scale = 1 + abs(k) + float(np.abs(g).sum())
            if resid > tolscale * scale:
                return 'row', 'constraint %d (%s, ambiguity set %d) violated by %.4g in scenario %d at its worst realisation' % (
                    ri, row['sense'], row.get('amb', 0), resid, s), active
            if abs(resid) <= 1e-5 * scale and np.any(g):
                active += 1
    return None, None, active


class C03(Prop):
    id = 'C03'
    rule = ('dro models feasible by construction: 1-4 scenarios (int or string labels), 1-3 random components (+ a lifted '
            'Wasserstein-style auxiliary), per-scenario supports (point, box, inf-norm, 1-norm, polytope, ellipsoid, lifted norm '
            'ball), 0-2 expectation sets on random events (box / equality / 1-norm / half-space on E(z), E(u)), probability sets '
            '(fixed, box, 1-norm, 2-norm, KL, free), static x and event-wise y (partition built by a random sequence of adapt() '
            'calls) with optional affine adaptation on a mask, minsup/maxinf of E(affine) or E(maxof/minof pieces), or min/max of a '
            'deterministic expression (then every constraint names its set), robust rows without E, expectation rows E(affine) <= 0 / '
            'E(maxof(..)) <= 0 / E(minof(..)) >= 0, an optional second ambiguity set of the same model used through constr.forall(set2), '
            'constr.forall(set) spelled out, and constr.forall(<support constraints>). Oracle: adversarial distribution by the primal moment LP over support atoms (vertices for polytopes, '
            'extreme points in the piece directions + boundary samples for balls; p from the LP or from verified candidates for '
            'KL/2-norm sets); every witness distribution is re-checked against the declared set by direct arithmetic; the expected '
            'objective under it, computed by NumPy from get()/get(z), must not be worse than model.get(); rows without E are '
            'tested at the worst realisation of every scenario support of the set the row names; E rows are attacked with the same moment LP over '
            'their own ambiguity set. Non-trivial = adversarial expectation differs from the '
            'centre-distribution value by > 1e-4 or a robust row is active; distinct by IR hash.')
    assumptions = ['tolerance 1e-6 (LP) / 5e-5 (conic) relative', 'ellipsoidal supports and KL/2-norm probability sets are attacked with finitely many atoms / candidate p (sound, weaker)']

    def examples(self, tier):
        return 3000 if tier == 'quick' else 60000

    def strategy(self, tier):
        return D.dro_case(polyhedral=False, allow_kl=True, econs=True, amb2_ok=True, det_obj=True)

    def check(self, case):
        labels = ['S:%d' % case['S'], 'prob:' + case['prob']['t'], 'obj:' + case['obj']['kind'], 'pieces:%d' % len(case['obj']['pieces']),
                  'exps:%d' % len(case['exps']), 'labels:' + case['labels']]
        idx, ev = D.event_index(case)
        if case['ny']:
            labels.append('events:%d' % len(ev))
            if np.any(case['ymask']):
                labels.append('affine_adapt')
        if case['nu']:
            labels.append('lifted')
        if case.get('amb2'):
            labels.append('amb2')
        for r in case['cons']:
            if r.get('E'):
                labels.append('Erow:pw' if r.get('alt') else 'Erow:vector' if r.get('vec') else 'Erow:affine')
            if r.get('amb'):
                labels.append('forall_amb2')
            if r.get('fsupp'):
                labels.append('forall_support')
        m, h = D.build(case)
        solver, kind = D.pick_solver(case)
        val = D.solve(m, solver)
        if val is None:
            return Outcome.skip('not_optimal', labels)
        x, y0, Y, raw = D.read_solution(case, h)
        tolscale = 1e-6 if kind == 'lp' else 5e-5
        tag, msg, active = row_check(case, x, y0, Y, tolscale)
        if tag:
            return Outcome.fail(tag, msg, labels)
        # adversarial distribution
        S = case['S']
        dirs = [np.array(pc['f'], dtype=float) for pc in case['obj']['pieces']]
        atoms = []
        exact = True
        for s in range(S):
            ds = [d + (Y[s].T @ np.array(pc['e']) if case['ny'] else 0.0) for d, pc in zip(dirs, case['obj']['pieces'])]
            a, ex = D.atoms_for(case['supports'][s], ds + [np.eye(case['nz'] + case['nu'])[j] for j in range(case['nz'])], seed=s)
            if case['nu'] and a.shape[1] == case['nz']:
                return Outcome.skip('lifted_nonpolyhedral', labels)
            atoms.append(a)
            exact = exact and ex
        vals = [[D.integrand(case, x, y0[s], Y[s], w) for w in atoms[s]] for s in range(S)]
        sign = 1.0 if case['obj']['kind'] in ('minsup', 'min') else -1.0
        if case['obj']['kind'] in ('min', 'max'):
            # deterministic objective of a dro model: model.get() bounds the expression in every scenario
            sv = [D.integrand(case, x, y0[s], Y[s], atoms[s][0]) for s in range(S)]
            sb = int(np.argmax(sign * np.array(sv)))
            if sign * (sv[sb] - val) > tolscale * 10 * (1 + abs(val)):
                return Outcome.fail('objective:%s' % case['obj']['kind'], 'model.get()=%.9g but the objective expression is %.9g in scenario %d' % (val, sv[sb], sb), labels)
            return Outcome.ok(active > 0 or len(set(np.round(sv, 6))) > 1, labels)
        results = []
        if case['prob']['t'] in ('kl', 'l2'):
            gains = [max(v) if sign > 0 else -min(v) for v in vals]
            for pc in D.p_candidates(case, gains):
                r = D.worst_case(case, atoms, vals, sign=sign, p_fixed=pc)
                if r is not None:
                    results.append(r)
        else:
            r = D.worst_case(case, atoms, vals, sign=sign)
            if r is not None:
                results.append(r)
        if not results:
            return Outcome.inconclusive('no_witness_distribution', labels)
        best = max(results, key=lambda r: sign * r[0])
        wval, wts, p = best
        why = D.verify_distribution(case, atoms, wts)
        if why:
            return Outcome.inconclusive('witness_not_member:' + why.split(' ')[0], labels)
        tol = tolscale * 10 * (1 + abs(val))
        if sign * (wval - val) > tol:
            return Outcome.fail('objective:%s:%s' % (case['obj']['kind'], case['prob']['t']),
                                'model.get()=%.9g but a distribution of the ambiguity set (p=%s) gives expected objective %.9g' % (
                                    val, np.round(p, 6).tolist(), wval), labels)
        centre = D.centre_value(case, x, y0, Y)
        nt = abs(wval - centre) > 1e-4 or active > 0
        if exact:
            labels.append('exact_inner')
        return Outcome.ok(nt, labels)


PROP = C03()
