"""C03 - dro solutions are safe for every distribution in the ambiguity set."""
import numpy as np

from vf.core import Prop, Outcome
from vf import dromodel as D


def row_check(case, x, y0, Y, tolscale):
    """no-E constraints must hold for every scenario and every realisation of its support"""
    S, ny = case['S'], case['ny']
    active = 0
    for ri, row in enumerate(case['cons']):
        sg = 1.0 if row['sense'] == 'le' else -1.0
        for s in range(S):
            k = float(np.array(row['a0']) @ x + (np.array(row['b']) @ y0[s] if ny else 0.0) + row['c0'])
            g = np.array(row['c'], dtype=float) + (Y[s].T @ np.array(row['b']) if ny else 0.0)
            worst = D.support_max(case['supports'][s], sg * g)
            if worst is None:
                continue                 # the independent maximiser failed: no verdict for this row/scenario
            resid = sg * k + worst
            scale = 1 + abs(k) + float(np.abs(g).sum())
            if resid > tolscale * scale:
                return 'constraint %d (%s) violated by %.4g in scenario %d at its worst realisation' % (ri, row['sense'], resid, s), active
            if abs(resid) <= 1e-5 * scale and np.any(g):
                active += 1
    return None, active


class C03(Prop):
    id = 'C03'
    rule = ('dro models feasible by construction: 1-4 scenarios (int or string labels), 1-3 random components (+ a lifted '
            'Wasserstein-style auxiliary), per-scenario supports (point, box, inf-norm, 1-norm, polytope, ellipsoid, lifted norm '
            'ball), 0-2 expectation sets on random events (box / equality / 1-norm / half-space on E(z), E(u)), probability sets '
            '(fixed, box, 1-norm, 2-norm, KL, free), static x and event-wise y (partition built by a random sequence of adapt() '
            'calls) with optional affine adaptation on a mask, minsup/maxinf of E(affine) or E(maxof/minof pieces), robust rows '
            'without E. Oracle: adversarial distribution by the primal moment LP over support atoms (vertices for polytopes, '
            'extreme points in the piece directions + boundary samples for balls; p from the LP or from verified candidates for '
            'KL/2-norm sets); every witness distribution is re-checked against the declared set by direct arithmetic; the expected '
            'objective under it, computed by NumPy from get()/get(z), must not be worse than model.get(); rows without E are '
            'tested at the worst realisation of every scenario support. Non-trivial = adversarial expectation differs from the '
            'centre-distribution value by > 1e-4 or a robust row is active; distinct by IR hash.')
    assumptions = ['tolerance 1e-6 (LP) / 5e-5 (conic) relative', 'ellipsoidal supports and KL/2-norm probability sets are attacked with finitely many atoms / candidate p (sound, weaker)']

    def examples(self, tier):
        return 1200 if tier == 'quick' else 30000

    def strategy(self, tier):
        return D.dro_case(polyhedral=False, allow_kl=True)

    def check(self, case):
        labels = ['S:%d' % case['S'], 'prob:' + case['prob']['t'], 'obj:' + case['obj']['kind'], 'pieces:%d' % len(case['obj']['pieces']),
                  'exps:%d' % len(case['exps']), 'labels:' + case['labels']]
        idx, ev = D.event_index(case)
        if case['ny']:
            labels.append('events:%d' % len(ev))
            if np.any(case['ymask']):
                labels.append('affine_adapt')
        if case['nu']:
            labels.append('lifted')
        m, h = D.build(case)
        solver, kind = D.pick_solver(case)
        val = D.solve(m, solver)
        if val is None:
            return Outcome.skip('not_optimal', labels)
        x, y0, Y, raw = D.read_solution(case, h)
        tolscale = 1e-6 if kind == 'lp' else 5e-5
        msg, active = row_check(case, x, y0, Y, tolscale)
        if msg:
            return Outcome.fail('row', msg, labels)
        # adversarial distribution
        S = case['S']
        dirs = [np.array(pc['f'], dtype=float) for pc in case['obj']['pieces']]
        atoms = []
        exact = True
        for s in range(S):
            ds = [d + (Y[s].T @ np.array(pc['e']) if case['ny'] else 0.0) for d, pc in zip(dirs, case['obj']['pieces'])]
            a, ex = D.atoms_for(case['supports'][s], ds + [np.eye(case['nz'] + case['nu'])[j] for j in range(case['nz'])], seed=s)
            if case['nu'] and a.shape[1] == case['nz']:
                return Outcome.skip('lifted_nonpolyhedral', labels)
            atoms.append(a)
            exact = exact and ex
        vals = [[D.integrand(case, x, y0[s], Y[s], w) for w in atoms[s]] for s in range(S)]
        sign = 1.0 if case['obj']['kind'] == 'minsup' else -1.0
        results = []
        if case['prob']['t'] in ('kl', 'l2'):
            gains = [max(v) if sign > 0 else -min(v) for v in vals]
            for pc in D.p_candidates(case, gains):
                r = D.worst_case(case, atoms, vals, sign=sign, p_fixed=pc)
                if r is not None:
                    results.append(r)
        else:
            r = D.worst_case(case, atoms, vals, sign=sign)
            if r is not None:
                results.append(r)
        if not results:
            return Outcome.inconclusive('no_witness_distribution', labels)
        best = max(results, key=lambda r: sign * r[0])
        wval, wts, p = best
        why = D.verify_distribution(case, atoms, wts)
        if why:
            return Outcome.inconclusive('witness_not_member:' + why.split(' ')[0], labels)
        tol = tolscale * 10 * (1 + abs(val))
        if sign * (wval - val) > tol:
            return Outcome.fail('objective:%s:%s' % (case['obj']['kind'], case['prob']['t']),
                                'model.get()=%.9g but a distribution of the ambiguity set (p=%s) gives expected objective %.9g' % (
                                    val, np.round(p, 6).tolist(), wval), labels)
        centre = D.centre_value(case, x, y0, Y)
        nt = abs(wval - centre) > 1e-4 or active > 0
        if exact:
            labels.append('exact_inner')
        return Outcome.ok(nt, labels)


PROP = C03()
