"""C15 - equivalent ways of writing a model give the same optimum (metamorphic)."""
import copy

import numpy as np
from hypothesis import strategies as st

from vf.core import Prop, Outcome
from vf import detmodel, romodel, rosets
from vf.props import c06
from vf.quiet import quiet


@st.composite
def knobs(draw, n_lin, n_atoms, n_cons):
    return {'flip_obj': draw(st.booleans()), 'front': draw(st.sampled_from(['ro', 'dro'])),
            'decl': draw(st.sampled_from(['one', 'split'])),
            'bound_style': draw(st.sampled_from(['array', 'entry', 'rows', 'infnorm'])),
            'lin_style': [draw(st.integers(0, 3)) for _ in range(n_lin)],
            'lin_split_eq': [draw(st.booleans()) for _ in range(n_lin)],
            'lin_rowwise': [draw(st.booleans()) for _ in range(n_lin)],
            'lin_scale': [draw(st.sampled_from([1.0, 1.0, 2.0, 0.5, 3.0])) for _ in range(n_lin)],
            'lin_perm': draw(st.permutations(list(range(n_lin)))),
            'atom_spell': [draw(st.integers(0, 5)) for _ in range(n_atoms)],
            'atom_scale': [draw(st.sampled_from([1.0, 1.0, 2.0, 0.5, 4.0])) for _ in range(n_atoms)],
            'loose_bounds': draw(st.sampled_from([0, 1, 2])),
            'set_style': draw(st.integers(0, 5)),
            'atom_perm': draw(st.permutations(list(range(n_atoms)))),
            # ro-model knobs
            'set_arg': draw(st.sampled_from(['list', 'tuple', 'varargs'])), 'adapt_style': draw(st.sampled_from(['whole', 'entry', 'mixed'])),
            'xbound_style': draw(st.sampled_from(['bounds', 'rows'])), 'con_style': [draw(st.integers(0, 4)) for _ in range(n_cons)],
            'con_vec': [draw(st.booleans()) for _ in range(n_cons)], 'con_scale': [draw(st.sampled_from([1.0, 2.0, 0.5])) for _ in range(n_cons)],
            'con_perm': draw(st.permutations(list(range(n_cons)))), 'as_dro': draw(st.booleans())}


@st.composite
def c15_case(draw):
    kind = draw(st.sampled_from(['det', 'det', 'ro']))
    if kind == 'det':
        c = draw(c06.c06_case())
        nl, na, nc = len(c['lin']), len(c['atoms']), 0
        base = {'kind': 'det', 'det': c}
    else:
        c = draw(romodel.ro_case(families=['box', 'l1', 'linf', 'poly', 'eq', 'l2', 'budget'], max_cons=3))
        c['obj'].pop('extra', None)
        nl, na, nc = 0, 0, len(c['cons'])
        base = {'kind': 'ro', 'ro': c}
    base['k1'] = draw(knobs(nl, na, nc))
    base['k2'] = draw(knobs(nl, na, nc))
    return base


def apply_det(case, k):
    c = copy.deepcopy(case)
    c['flip_obj'] = k['flip_obj']
    c['front'] = k['front']
    if any(cn['t'] == 'kldiv' for cn in c['cones']):
        c['front'] = 'ro'          # kldiv() on decisions is rejected (TypeError) by the dro front end: no dro presentation
    c['decl'] = k['decl']
    c['bound_style'] = k['bound_style']
    c['loose_bounds'] = k.get('loose_bounds', 0)
    if c['front'] == 'dro':
        c['cones'] = [cn for cn in c['cones']]
    lin = []
    for i in k['lin_perm']:
        con = copy.deepcopy(c['lin'][i])
        sc = k['lin_scale'][i]
        con['A'] = (np.array(con['A']) * sc).tolist()
        con['b'] = (np.array(con['b']) * sc).tolist()
        con['style'] = k['lin_style'][i]
        parts = [con]
        if con['sense'] == 'eq' and k['lin_split_eq'][i]:
            parts = [dict(con, sense='le', style=con['style']), dict(con, sense='ge', style=(con['style'] + 1) % 4)]
        for pcon in parts:
            if k['lin_rowwise'][i] and len(pcon['b']) > 1:
                for r in range(len(pcon['b'])):
                    lin.append({'A': [pcon['A'][r]], 'b': [pcon['b'][r]], 'sense': pcon['sense'], 'style': pcon['style']})
            else:
                lin.append(pcon)
    c['lin'] = lin
    atoms = []
    for i in k['atom_perm']:
        a = copy.deepcopy(c['atoms'][i])
        a['spell'] = k['atom_spell'][i]
        sc = k.get('atom_scale', [1.0] * len(c['atoms']))[i]
        if sc != 1.0:        # positive rescaling of the whole constraint: k*f + k*o <= k*r
            a['kappa'] = a['kappa'] * sc
            for key in ('o', 'o0', 'r', 'r0'):
                a[key] = (np.array(a[key], dtype=float) * sc).tolist()
        atoms.append(a)
    c['atoms'] = atoms
    return c


def solve_det(case):
    m, x, pieces = detmodel.build(case)
    detmodel.declare(case, m, x, pieces)
    solver, kind = c06.solver_choice(case)
    val = detmodel.solve_model(m, solver)
    stt = getattr(m.solution, 'status', None)
    if val is not None and case.get('flip_obj'):
        val = -val
    return val, stt, kind


def apply_ro(case, k):
    c = copy.deepcopy(case)
    c['set_arg'], c['adapt_style'], c['xbound_style'] = k['set_arg'], k['adapt_style'], k['xbound_style']
    # the same sets written differently: bounds as bound objects / rows / per entry, inf-norm as abs / norm, ellipsoid as
    # norm / sumsqr / quad, half-spaces as <= / >=
    t = k.get('set_style', 0)
    for s_ in c['sets']:
        for p_ in s_['pieces']:
            if p_['t'] == 'box':
                p_['style'] = ['bounds', 'rows', 'split'][t % 3]
            elif p_['t'] == 'linf':
                p_['style'] = ['abs', 'inf'][t % 2]
            elif p_['t'] == 'l2':
                p_['style'] = ['norm', 'sumsqr', 'quad'][t % 3]
            elif p_['t'] == 'poly':
                p_['style'] = ['le', 'ge'][t % 2]
    cons = []
    for i in k['con_perm']:
        con = c['cons'][i]
        con['style'] = k['con_style'][i]
        if len(con['rows']) > 1:
            con['vec'] = k['con_vec'][i]
        if not con.get('given'):
            con['scale'] = k['con_scale'][i]
        cons.append(con)
    c['cons'] = cons
    return c


def build_dro_from_ro(c):
    """the same model as a single-scenario dro model"""
    import rsome as rso
    from rsome import dro, E
    m = dro.Model()
    nx, ny, nz, nu = c['nx'], c['ny'], c['nz'], c['nu']
    x = m.dvar(nx)
    z = m.rvar(nz)
    u = m.rvar(nu) if nu else None
    y = m.dvar(ny) if ny else None
    fsets = []
    for s in c['sets']:
        fs = m.ambiguity()
        fs.suppset(rosets.rsome_constraints(s, z, u))
        fsets.append(fs)
    mask = np.array(c['ymask']).reshape(ny, nz + nu)
    for kk in range(ny):
        for (rv, off, n) in ((z, 0, nz), (u, nz, nu)):
            if rv is None:
                continue
            for j in range(n):
                if mask[kk, off + j]:
                    y[kk].adapt(rv[j])
    o = c['obj']
    if o['kind'] in ('min', 'max'):
        e = np.array(o['d0']) @ x + o['f0']
        (m.min if o['kind'] == 'min' else m.max)(e)
    else:
        row = {'a0': o['d0'], 'A': o['D'], 'b': o['e'], 'c': o['f'], 'c0': o['f0']}
        e = romodel._row_expr(row, x, y, z, u, nz, o.get('style', 0))
        (m.minsup if o['kind'] == 'minmax' else m.maxinf)(E(e) if hasattr(e, 'E') else e, fsets[0])
    m.st(x >= np.array(c['xlo']), x <= np.array(c['xhi']))
    default_needed = o['kind'] in ('min', 'max')
    for con in c['cons']:
        sc = con.get('scale', 1.0)
        for row in con['rows']:
            e = romodel._row_expr(row, x, y, z, u, nz, con['style'])
            if sc != 1.0:
                e = sc * e
            cc = (e <= 0) if con['sense'] == 'le' else (e >= 0) if con['sense'] == 'ge' else (e == 0)
            kset = con['set']
            if kset is None and default_needed:
                kset = 0
            if kset is not None and hasattr(cc, 'forall'):
                cc = cc.forall(fsets[kset])
            m.st(cc)
    return m


def solve_ro(case, as_dro):
    solver, kind = romodel.pick_solver(case)
    if as_dro:
        m = build_dro_from_ro(case)
    else:
        m, h = romodel.build(case)
    val = romodel.solve(m, solver)
    return val, getattr(m.solution, 'status', None), kind


class C15(Prop):
    id = 'C15'
    crash_is_violation = True
    rule = ('a model from the C06 (deterministic, all atoms) or C01 (robust) generator is written in two presentations drawn '
            'independently from the group of meaning-preserving rewrites: min f vs -max -f; order of declaring variables (one array '
            'vs several) and constraints (permutations); a<=b vs b>=a vs -b<=-a vs a-b<=0; an equality vs the pair of inequalities; '
            'bounds as bound objects (arrays or per entry), as linear rows or as infinity-norm balls; array constraints vs row-by-row; '
            'positive rescaling; six spellings of each atom constraint; a set given as list / tuple / separate arguments; whole-array '
            'vs per-entry adapt(); scalar vs array-valued robust constraints; ro front end vs single-scenario dro model. Oracle: the '
            'two optimal values must be equal (same solver); a presentation that crashes or reports infeasible/unbounded while the '
            'other solves is a violation. Non-trivial = the presentations differ in at least two rewrite families; distinct by IR hash.')
    assumptions = ['tolerance 1e-6 (LP/MILP) / 2e-4 (conic) relative; a cone-solver failure in either presentation is inconclusive']

    def examples(self, tier):
        return 1200 if tier == 'quick' else 30000

    def strategy(self, tier):
        return c15_case()

    def check(self, case):
        k1, k2 = case['k1'], case['k2']
        labels = ['kind:' + case['kind']]
        if case['kind'] == 'det':
            base = case['det']
            c1, c2 = apply_det(base, k1), apply_det(base, k2)
            v1, s1, kind = solve_det(c1)
            v2, s2, _ = solve_det(c2)
            fams = ['flip_obj', 'front', 'decl', 'bound_style', 'lin_style', 'lin_split_eq', 'lin_rowwise', 'lin_scale', 'lin_perm',
                    'atom_spell', 'atom_perm', 'atom_scale', 'loose_bounds']
        else:
            base = case['ro']
            c1, c2 = apply_ro(base, k1), apply_ro(base, k2)
            v1, s1, kind = solve_ro(c1, k1['as_dro'])
            v2, s2, _ = solve_ro(c2, k2['as_dro'])
            fams = ['set_arg', 'adapt_style', 'xbound_style', 'con_style', 'con_vec', 'con_scale', 'con_perm', 'as_dro', 'set_style']
        ndiff = sum(1 for f in fams if k1.get(f) != k2.get(f))
        labels += ['diff:' + f for f in fams if k1.get(f) != k2.get(f)]
        labels.append('kind:' + kind)
        if v1 is None and v2 is None:
            return Outcome.skip('both_unsolved', labels)
        if v1 is None or v2 is None:
            if kind == 'lp':
                if case['kind'] == 'det':
                    from vf.props.c11 import highs_itself_fails
                    bad = c1 if v1 is None else c2
                    mb, xb, pb = detmodel.build(bad)
                    detmodel.declare(bad, mb, xb, pb)
                    with quiet():
                        fb = mb.do_math()
                    if any(t in 'IB' for t in fb.vtype) and highs_itself_fails(fb):
                        return Outcome.inconclusive('HiGHS fails on the compiled program with presolve and solves it without (solver defect, '
                                                    'reproduced by an independent scipy.milp call)', labels + ['highs_presolve_failure'])
                return Outcome.fail('status_mismatch', 'one presentation solves (%r) and the other reports status %s' % (
                    v1 if v1 is not None else v2, s1 if v1 is None else s2), labels)
            return Outcome.inconclusive('cone_solver_status', labels)
        tol = (1e-6 if kind == 'lp' else 2e-4) * (1 + abs(v1))
        if abs(v1 - v2) > tol:
            if kind == 'conic' and case['kind'] == 'det':
                # a conic program whose optimum moves by more than the tolerance when rows and bounds are relaxed by 1e-6 has no
                # optimal value 'within tolerance' to compare (thin feasible sets: one presentation's solver run sits 2e-5 outside)
                from vf.props.c11 import ill_posed
                from rsome import grb_solver, eco_solver
                res = []
                for cc in (c1, c2):
                    mb, xb, pb = detmodel.build(cc)
                    detmodel.declare(cc, mb, xb, pb)
                    sv, _ = c06.solver_choice(cc)
                    with quiet():
                        mb.solve(sv, display=False)
                        fb = mb.do_math()
                    sol = mb.solution
                    ok_ = sol is not None and sol.x is not None and not np.isnan(sol.objval)
                    res.append(('gurobi' if sv is grb_solver else 'ecos', True, ok_, None, sol, fb))
                if ill_posed(res, 2e-4):
                    return Outcome.inconclusive('the optimum of one presentation moves by more than the comparison tolerance when rows and '
                                                'bounds are relaxed by 1e-6 (ill-posed conic program)', labels + ['ill_posed'])
            return Outcome.fail('value:' + '+'.join(f for f in fams if k1.get(f) != k2.get(f))[:60],
                                'two equivalent presentations give optima %.9g and %.9g' % (v1, v2), labels)
        return Outcome.ok(ndiff >= 2, labels)


PROP = C15()
