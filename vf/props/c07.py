"""C07 - the deterministic optimum is the true optimum; conic atom encodings are exact."""
import itertools

import numpy as np
from hypothesis import strategies as st
from scipy.optimize import linprog

from vf.core import Prop, Outcome
from vf import detmodel
from vf.props import c06
from vf.quiet import quiet

ELEM = ['abs', 'square', 'power', 'exp', 'softplus', 'log', 'pexp', 'plog']
VEC = ['norm1', 'norm2', 'norminf', 'pnorm', 'sumsqr', 'quad', 'gmean', 'entropy', 'sumexp', 'sumlog', 'maxof', 'minof']
VALS = [-2.0, -1.5, -1.0, -0.5, 0.0, 0.25, 0.5, 1.0, 1.5, 2.0, 3.0]
POS = [0.25, 0.5, 1.0, 1.5, 2.0, 3.0]


def _reduced_pairs(maxa=9):
    out = []
    for a in range(2, maxa + 1):
        for b in range(1, a):
            if np.gcd(a, b) == 1:
                out.append((a, b))
    return out


PAIRS = _reduced_pairs()


@st.composite
def pin_case(draw):
    """min t  s.t. kappa*f(M x + v) (+offset) <= t  with x pinned: optimum is the closed form"""
    name = draw(st.sampled_from(ELEM + VEC + VEC))
    curv, res, dom, layer = detmodel.ATOMS[name]
    k = draw(st.integers(1, 4))
    if name == 'gmean':
        k = draw(st.integers(2, 5))
    m = draw(st.integers(1, 3))                         # dimension of pinned x
    x0 = [draw(st.sampled_from(VALS)) for _ in range(m)]
    M = [detmodel._row(draw, m) for _ in range(k)]
    target = [draw(st.sampled_from(POS if dom == 'pos' else VALS)) for _ in range(k)]
    a = {'atom': name, 'M': None, 'v': None}
    if name == 'pnorm':
        a['p'] = draw(st.one_of(st.integers(3, 12), st.sampled_from([list(p) for p in PAIRS if p[0] > p[1]]),
                                st.sampled_from([1.5, 2.5, 3.5, 1.25])))
    if name == 'power':
        PQ = PAIRS + [(2, 1), (3, 1), (4, 1), (5, 1), (6, 1), (1, 1), (2, 2), (1, 1)]      # p == q: exponent one, the entry is |u|
        mode = draw(st.sampled_from(['scalar', 'vector', 'rows', 'rows', 'cols']))
        if mode in ('rows', 'cols'):
            k = 4                                   # 2 x 2 argument, exponents per row (2,1) or per column (2,)
            M = [detmodel._row(draw, m) for _ in range(k)]
            target = [draw(st.sampled_from(VALS)) for _ in range(k)]
            pq = [draw(st.sampled_from(PQ)) for _ in range(2)]
            if draw(st.booleans()):
                pq[draw(st.integers(0, 1))] = draw(st.sampled_from([(1, 1), (2, 2), (3, 3)]))      # mixed array with an exponent-one entry
            a['shape2'] = [2, 2]
            a['pshape'] = [2, 1] if mode == 'rows' else [2]
            a['p'], a['q'] = [int(v[0]) for v in pq], [int(v[1]) for v in pq]
        elif mode == 'vector' and k > 1:
            pq = [draw(st.sampled_from(PQ)) for _ in range(k)]
            if draw(st.booleans()):
                pq[draw(st.integers(0, k - 1))] = draw(st.sampled_from([(1, 1), (2, 2), (3, 3)]))
            a['p'], a['q'] = [int(v[0]) for v in pq], [int(v[1]) for v in pq]
        else:
            p, q = draw(st.sampled_from(PQ))
            a['p'], a['q'] = int(p), int(q)
    if name == 'gmean':
        a['beta'] = [draw(st.integers(1, 5)) for _ in range(k)]
    if name == 'quad':
        L = np.array([[draw(st.sampled_from([-1.0, 0.0, 1.0, 2.0, 0.5])) if j <= i else 0.0 for j in range(k)] for i in range(k)])
        Q = L @ L.T
        a['nsd'] = draw(st.booleans()) and bool(np.any(Q))
        a['Q'] = (-Q if a['nsd'] else Q).tolist()
    relem = k if res == 'elem' else 1
    n = m + relem
    Mfull = [row + [0.0] * relem for row in M]
    a['M'] = Mfull
    a['v'] = list(np.array(target) - np.array(M) @ np.array(x0))
    if name in ('pexp', 'plog'):
        srow = detmodel._row(draw, m, 0.4) if draw(st.booleans()) else [0.0] * m
        sc = draw(st.sampled_from([0.5, 1.0, 2.0]))
        a['sM'] = [srow + [0.0] * relem]
        a['sv'] = [sc - float(np.array(srow) @ np.array(x0))]
    a['kappa'] = draw(st.sampled_from([0.5, 1.0, 1.0, 3.0, 2.0]))
    a['o'] = [[0.0] * n for _ in range(relem)]
    a['o0'] = [draw(st.sampled_from([0.0, 0.0, 1.0, -2.0])) for _ in range(relem)]
    a['r'] = [[0.0] * m + [1.0 if j == i else 0.0 for j in range(relem)] for i in range(relem)]
    a['r0'] = [0.0] * relem
    a['spell'] = draw(st.integers(0, 5))
    cvx = detmodel.atom_curv(a) == 'cvx'
    bounds = [['fix', v, v] for v in x0] + [['free', None, None]] * relem
    pin_style = draw(st.sampled_from(['bounds', 'eq']))
    lin = []
    if pin_style == 'eq':
        bounds = [['free', None, None]] * n
        lin = [{'A': [[1.0 if j == i else 0.0 for j in range(n)] for i in range(m)], 'b': list(x0), 'sense': 'eq', 'style': draw(st.integers(0, 3))}]
    case = {'mode': 'pin', 'front': draw(st.sampled_from(['ro', 'dro'])), 'n': n, 'vtypes': 'C' * n, 'bounds': bounds,
            'lin': lin, 'atoms': [a], 'cones': [],
            'obj': {'sense': 'min' if cvx else 'max', 'c': [0.0] * m + [1.0] * relem, 'c0': 0.0},
            'witness': list(x0) + [0.0] * relem, 'decl': draw(st.sampled_from(['one', 'split'])), 'bound_style': 'entry',
            'x0': x0}
    return case


@st.composite
def milp_case(draw):
    c = draw(detmodel.det_case(atom_names=['abs', 'norminf', 'maxof'], bounded_by='box', max_atoms=1, int_ok=True, frac_int=True,
                               fronts=('ro', 'dro')))
    # make sure there is at least one integer column, keep integer ranges small
    vt = list(c['vtypes'])
    if not any(t in 'IB' for t in vt):
        j = draw(st.integers(0, c['n'] - 1))
        vt[j] = 'I'
        b = c['bounds'][j]
        c['bounds'][j] = [b[0], float(np.floor(b[1])), float(np.ceil(b[2]))]
        c['witness'][j] = float(np.round(c['witness'][j]))
    c['vtypes'] = ''.join(vt)
    c['mode'] = 'milp'
    return c


@st.composite
def c07_case(draw):
    mode = draw(st.sampled_from(['pin', 'pin', 'feas', 'milp']))
    if mode == 'pin':
        return draw(pin_case())
    if mode == 'milp':
        return draw(milp_case())
    c = draw(c06.c06_case())
    c['mode'] = 'feas'
    return c


def lin_rows(case):
    """all linearisable constraints as rows G x <= h (lin rows + abs/norminf/maxof atoms); equalities separately"""
    G, h, E, e = [], [], [], []
    for con in case['lin']:
        A, b = np.array(con['A']), np.array(con['b'])
        for k in range(len(b)):
            if con['sense'] == 'le':
                G.append(A[k]); h.append(b[k])
            elif con['sense'] == 'ge':
                G.append(-A[k]); h.append(-b[k])
            else:
                E.append(A[k]); e.append(b[k])
    for a in case['atoms']:
        M, v = np.array(a['M']), np.array(a['v'])
        o, o0, r, r0 = (np.array(a[k]) for k in ('o', 'o0', 'r', 'r0'))
        kap = a['kappa']
        for i in range(len(v)):
            j = i if a['atom'] == 'abs' else 0
            for sg in ((1.0, -1.0) if a['atom'] in ('abs', 'norminf') else (1.0,)):
                G.append(sg * kap * M[i] + o[j] - r[j])
                h.append(r0[j] - o0[j] - sg * kap * v[i])
    return (np.array(G) if G else np.zeros((0, case['n'])), np.array(h),
            np.array(E) if E else None, np.array(e) if E else None)


def brute_force_milp(case, limit=400):
    n = case['n']
    vt = case['vtypes']
    ranges = []
    for j in range(n):
        kind, lo, hi = case['bounds'][j]
        if vt[j] == 'C':
            ranges.append(None)
            continue
        if vt[j] == 'B':
            lo2 = 0 if lo is None else max(0, int(np.ceil(lo - 1e-9)))
            hi2 = 1 if hi is None else min(1, int(np.floor(hi + 1e-9)))
        else:
            if lo is None or hi is None:
                return None, 'unbounded integer'
            lo2, hi2 = int(np.ceil(lo - 1e-9)), int(np.floor(hi + 1e-9))
        ranges.append(list(range(lo2, hi2 + 1)))
    ints = [j for j in range(n) if ranges[j] is not None]
    conts = [j for j in range(n) if ranges[j] is None]
    total = 1
    for j in ints:
        total *= max(1, len(ranges[j]))
    if total > limit:
        return None, 'too many integer points'
    G, h, E, e = lin_rows(case)
    c = np.array(case['obj']['c'], dtype=float)
    sg = 1.0 if case['obj']['sense'] == 'min' else -1.0
    best = None
    for combo in itertools.product(*[ranges[j] for j in ints]):
        xi = np.zeros(n)
        for j, v in zip(ints, combo):
            xi[j] = v
        if conts:
            Gc = G[:, conts]
            hc = h - G @ xi
            kw = {}
            if E is not None:
                kw = {'A_eq': E[:, conts], 'b_eq': e - E @ xi}
            bnds = [(case['bounds'][j][1], case['bounds'][j][2]) for j in conts]
            res = linprog(sg * c[conts], A_ub=Gc if len(hc) else None, b_ub=hc if len(hc) else None, bounds=bnds,
                          method='highs', **kw)
            if res.status != 0:
                continue
            val = sg * (res.fun + sg * c @ xi)
        else:
            if np.any(G @ xi - h > 1e-9):
                continue
            if E is not None and np.any(np.abs(E @ xi - e) > 1e-9):
                continue
            val = c @ xi
        if best is None or (val < best if sg > 0 else val > best):
            best = float(val)
    if best is None:
        return None, 'infeasible'
    return best + case['obj']['c0'], 'ok'


class C07(Prop):
    id = 'C07'
    rule = ('three generated families. (pin) one atom with random admissible parameters (p-norm degrees 3..12, every reduced a/b '
            'with b<a<=9, float degrees; powers p/q likewise; geometric-mean weights in 1..5; random PSD/NSD matrices; multipliers '
            '0.5..3; element-wise and vector shapes; six spellings; ro/dro) whose argument is pinned: optimum must equal the '
            'closed form. (feas) the C06 models: the reported optimum must not be worse than the objective at feasible points of '
            'the user model produced by construction (the witness, and points found by a ray search from it along the improving '
            'direction under NumPy evaluation of the constraints). (milp) small mixed-integer models (integer/binary columns with '
            'arbitrary user bounds, abs/inf-norm/maxof rows creating auxiliary columns) against brute-force enumeration with an '
            'inner scipy LP. Non-trivial: (pin) always (parameters are drawn, not the suite\'s fixed ones); (feas) the ray point '
            'is strictly better than the witness; (milp) the LP relaxation optimum differs from the integer optimum or an '
            'integer column sits between auxiliary columns. Distinct by IR hash.')
    assumptions = ['closed form compared with relative tolerance 1e-6 (LP) / 1e-4 (ECOS/Gurobi)',
                   'ECOS failures ("close to optimal", numerical problems) are skipped, never violations']

    def examples(self, tier):
        return 2600 if tier == 'quick' else 80000

    def strategy(self, tier):
        return c07_case()

    def check(self, case):
        mode = case['mode']
        labels = ['mode:' + mode, 'front:' + case['front']] + ['atom:' + a['atom'] for a in case['atoms']]
        m, x, pieces = detmodel.build(case)
        detmodel.declare(case, m, x, pieces)
        solver, kind = c06.solver_choice(case)
        val = detmodel.solve_model(m, solver)
        tol = 1e-6 if kind == 'lp' else 1e-4
        if mode == 'pin':
            a = case['atoms'][0]
            x0 = np.array(case['x0'] + [0.0] * (case['n'] - len(case['x0'])))
            with np.errstate(all='ignore'):
                lhs = np.atleast_1d(detmodel.atom_lhs(a, x0))      # = kappa f + off - t with t = 0
            expect = float(np.sum(lhs))
            par = a.get('p', a.get('beta', ''))
            labels.append('param:%s:%s' % (a['atom'], json_key(par, a.get('q'))))
            if val is None:
                return Outcome.skip('not_optimal', labels)
            if abs(val - expect) > tol * (1 + abs(expect)):
                return Outcome.fail('atom_value:%s' % a['atom'],
                                    'optimum %.9g but the closed form of %s at the pinned argument is %.9g (params %s)' % (
                                        val, a['atom'], expect, {k: a[k] for k in ('p', 'q', 'beta', 'kappa', 'pshape') if k in a}), labels)
            return Outcome.ok(True, labels)
        if mode == 'milp':
            ref, why = brute_force_milp(case)
            if ref is None and why != 'infeasible':
                return Outcome.skip('milp:' + why, labels)
            if val is None:
                if ref is not None and getattr(m.solution, 'status', None) in (2, 3):
                    from vf.props.c11 import highs_itself_fails
                    with quiet():
                        fml = m.do_math()
                    if solver is None and highs_itself_fails(fml):
                        return Outcome.inconclusive('HiGHS reports the compiled program infeasible with presolve and solves it without (solver defect)', labels + ['highs_presolve_failure'])
                    return Outcome.fail('milp:no_solution', 'solver reported status %s but enumeration finds optimum %.9g' % (m.solution.status, ref), labels)
                return Outcome.skip('not_optimal', labels)
            if ref is None:
                return Outcome.fail('milp:infeasible_solved', 'RSOME returned %.9g for a model with no feasible integer point' % val, labels)
            if abs(val - ref) > 1e-6 * (1 + abs(ref)):
                return Outcome.fail('milp:value', 'model.get()=%.9g but brute-force enumeration gives %.9g (vtypes %s)' % (val, ref, case['vtypes']), labels)
            # non-trivial: relaxation differs
            c2 = dict(case)
            c2['vtypes'] = 'C' * case['n']
            rel, _ = brute_force_milp(c2)
            nt = rel is not None and abs(rel - ref) > 1e-6
            return Outcome.ok(nt or bool(case['atoms']), labels + (['relaxation_fractional'] if nt else []))
        # feas
        if val is None:
            return Outcome.skip('not_optimal', labels)
        sg = 1.0 if case['obj']['sense'] == 'min' else -1.0
        x0 = np.array(case['witness'], dtype=float)

        def feasible(xx, margin):
            return all(v <= -margin * s for (_, v, s) in detmodel.residuals(case, xx)
                       if not _.startswith('int') and not _.startswith('bin')) if margin > 0 else \
                all(v <= 1e-12 * s for (_, v, s) in detmodel.residuals(case, xx))
        pts = []
        if all(v <= 1e-9 * s for (_, v, s) in detmodel.residuals(case, x0)):
            pts.append(x0)
        has_int = any(t in 'IB' for t in case['vtypes'])
        if not has_int and pts:
            d = -sg * np.array(case['obj']['c'], dtype=float)
            if np.any(d):
                lo, hi = 0.0, 8.0
                for _ in range(40):
                    mid = 0.5 * (lo + hi)
                    if all(v <= 0 for (_, v, s) in detmodel.residuals(case, x0 + mid * d)):
                        lo = mid
                    else:
                        hi = mid
                if lo > 0:
                    pts.append(x0 + lo * d)
        oa = case['obj'].get('atom')
        if oa is not None:
            pts = [xp for xp in pts if detmodel.in_domain(oa, xp, 1e-9)]     # the objective atom has a domain too
        better = False
        for xp in pts:
            ov = detmodel.objective_value(case, xp)
            if sg * (val - ov) > 10 * tol * (1 + abs(ov)):
                return Outcome.fail('too_tight:%s' % ('+'.join(sorted(set(a['atom'] for a in case['atoms']))) or 'linear'),
                                    'reported optimum %.9g is worse than the objective %.9g at the feasible point %s of the user model' % (
                                        val, ov, np.round(xp, 6).tolist()), labels)
        if len(pts) > 1:
            better = sg * (detmodel.objective_value(case, pts[1]) - detmodel.objective_value(case, pts[0])) < -1e-6
        return Outcome.ok(better, labels)


def json_key(p, q=None):
    if q is not None:
        return '%s/%s' % (p, q)
    return str(p).replace(' ', '')


PROP = C07()
