"""C06 - every accepted constraint and the objective are enforced as written."""
import numpy as np
from hypothesis import strategies as st

from vf.core import Prop, Outcome
from vf import detmodel
from vf.quiet import quiet

LP = ['abs', 'norm1', 'norminf', 'maxof', 'minof']
SOC = LP + ['norm2', 'square', 'sumsqr', 'quad', 'pnorm', 'power', 'gmean']
EXP = SOC + ['exp', 'log', 'softplus', 'entropy', 'pexp', 'plog', 'sumexp', 'sumlog']


def _viol_fun(case, kind, idx):
    """scalar 'violation' function of the focus constraint (positive = violated)"""
    if kind == 'atom':
        a = case['atoms'][idx]
        sgn = 1.0 if detmodel.atom_curv(a) == 'cvx' else -1.0

        def f(x):
            with np.errstate(all='ignore'):
                v = np.atleast_1d(detmodel.atom_lhs(a, x))
            return float(np.max(sgn * v))
        return f
    if kind == 'cone':
        c = case['cones'][idx]
        return lambda x: detmodel.cone_residual(idx, c, x)[1]
    con = case['lin'][idx]
    A, b = np.array(con['A']), np.array(con['b'])
    if con['sense'] == 'le':
        return lambda x: float(np.max(A @ x - b))
    return lambda x: float(np.max(b - A @ x))


def aim_objective(case, pick):
    """point the (affine part of the) objective along the outward normal of a focus constraint at the witness"""
    cands = [('atom', i) for i in range(len(case['atoms']))] + [('cone', i) for i in range(len(case['cones']))] + \
            [('lin', i) for i, c in enumerate(case['lin']) if c['sense'] != 'eq']
    if not cands:
        return None
    kind, idx = cands[pick % len(cands)]
    f = _viol_fun(case, kind, idx)
    x0 = np.array(case['witness'], dtype=float)
    g = np.zeros(len(x0))
    h = 1e-5
    for j in range(len(x0)):
        e = np.zeros(len(x0))
        e[j] = h
        fp, fm = f(x0 + e), f(x0 - e)
        if not (np.isfinite(fp) and np.isfinite(fm)):
            return None
        g[j] = (fp - fm) / (2 * h)
    if not np.any(np.abs(g) > 1e-6):
        return None
    g = np.round(g / np.max(np.abs(g)) * 4) / 2.0      # clean multiples of 0.5, largest entry +-2
    if not np.any(g):
        return None
    sg = -1.0 if case['obj']['sense'] == 'min' else 1.0
    case['obj']['c'] = [float(sg * v) for v in g]
    case['focus'] = [kind, idx]
    return kind, idx


@st.composite
def c06_case(draw):
    fam = draw(st.sampled_from(['lp', 'soc', 'soc', 'exp', 'exp']))
    names = {'lp': LP, 'soc': SOC, 'exp': EXP}[fam]
    cones = {'lp': False, 'soc': ['rsocone'], 'exp': ['rsocone', 'expcone', 'kldiv']}[fam]
    int_ok = fam in ('lp', 'soc') and draw(st.integers(0, 3)) == 0
    c = draw(detmodel.det_case(atom_names=names, bounded_by='box', max_atoms=3, int_ok=int_ok, obj_atom_prob=0.35,
                               cones=cones))
    c['fam'] = fam
    if detmodel.model_layer(c) == 'exp':
        # integers + exponential cones would need ECOS_BB, which is not an exact solver; a binary declared without bounds is
        # bounded by its type, so it keeps [0, 1] when it becomes continuous (the model stays box-bounded)
        c['bounds'] = [['box', 0.0, 1.0] if t == 'B' and b[0] == 'free' else b for t, b in zip(c['vtypes'], c['bounds'])]
        c['vtypes'] = 'C' * c['n']
    if not c['obj'].get('atom') and draw(st.integers(0, 3)) > 0:
        aim_objective(c, draw(st.integers(0, 7)))
    return c


@st.composite
def bcast_case(draw):
    """an element-wise atom whose argument (a row) broadcasts against a column-shaped bound / offset / perspective scale: every one of
    the k*n written constraints has to be enforced"""
    n, k = draw(st.integers(2, 3)), draw(st.integers(1, 3))
    what = draw(st.sampled_from(['square<=col', 'square+col<=c', 'col>=square', 'abs<=col', 'exp<=col', 'pexp_colscale<=t', 'plog_colscale>=t',
                                 'square+colvar<=c']))
    if what.startswith(('pexp', 'plog')):
        k = n if draw(st.booleans()) else k        # same number of entries, other orientation
    return {'kind': 'bcast', 'what': what, 'n': n, 'k': k, 'col': [draw(st.sampled_from([0.5, 1.0, 1.5, 2.0, 4.0])) for _ in range(k)],
            'front': draw(st.sampled_from(['ro', 'dro'])), 'w': [draw(st.sampled_from([1.0, 2.0, 0.5])) for _ in range(n)]}


def check_bcast(case):
    import rsome as rso
    from rsome import ro, dro, eco_solver
    n, k, what = case['n'], case['k'], case['what']
    col = np.array(case['col'], dtype=float).reshape(k, 1)
    w = np.array(case['w'])
    labels = ['kind:bcast', 'bcast:' + what, 'front:' + case['front']]
    m = ro.Model() if case['front'] == 'ro' else dro.Model()
    x = m.dvar(n)
    m.st(x >= 0.05, x <= 10)
    if what.startswith('plog'):
        m.min(w @ x)       # plog is increasing in x: minimising makes the constraints bind
    else:
        m.max(w @ x)
    cv = None
    if what == 'square<=col':
        m.st(rso.square(x) <= col)
        lhs = lambda xv, cvv: np.square(xv)[None, :] - col
    elif what == 'square+col<=c':
        m.st(rso.square(x) + col <= 5.0)
        lhs = lambda xv, cvv: np.square(xv)[None, :] + col - 5.0
    elif what == 'col>=square':
        m.st(col >= rso.square(x))
        lhs = lambda xv, cvv: np.square(xv)[None, :] - col
    elif what == 'abs<=col':
        m.st(abs(x) <= col)
        lhs = lambda xv, cvv: np.abs(xv)[None, :] - col
    elif what == 'exp<=col':
        m.st(rso.exp(x) <= col + 1.5)
        lhs = lambda xv, cvv: np.exp(xv)[None, :] - col - 1.5
    elif what == 'pexp_colscale<=t':
        m.st(rso.pexp(x, col) <= 6.0)
        lhs = lambda xv, cvv: col * np.exp(xv[None, :] / col) - 6.0
    elif what == 'plog_colscale>=t':
        m.st(rso.plog(x, col) >= -3.0)
        lhs = lambda xv, cvv: -3.0 - col * np.log(xv[None, :] / col)
    else:
        cv = m.dvar((k, 1))
        m.st(cv == col)
        m.st(rso.square(x) + cv <= 5.0)
        lhs = lambda xv, cvv: np.square(xv)[None, :] + col - 5.0
    solver = eco_solver if what.startswith(('exp', 'pexp', 'plog', 'square', 'col')) else None
    with quiet():
        m.solve(solver, display=False)
    sol = m.solution
    if sol is None or sol.x is None or np.isnan(sol.objval) or 'lose' in str(sol.status):
        return Outcome.skip('not_optimal', labels)
    xv = np.asarray(x.get(), dtype=float).ravel()
    res = lhs(xv, None)
    worst = float(np.max(res))
    if worst > 1e-4 * (1 + float(np.max(np.abs(col)))):
        i, j = np.unravel_index(int(np.argmax(res)), res.shape)
        return Outcome.fail('bcast:violated:' + what.split('<')[0].split('>')[0], 'the written constraint (%s, argument of shape (%d,), column of shape (%d, 1)) is '
                            'violated at entry (%d, %d) of its %d x %d broadcast by %.4g at the returned x = %s' % (what, n, k, i, j, k, n, worst, xv.tolist()), labels)
    return Outcome.ok(True, labels)


def solver_choice(case):
    from rsome import eco_solver, grb_solver
    layer = detmodel.model_layer(case)
    has_int = any(t in 'IB' for t in case['vtypes'])
    if layer == 'exp':
        return eco_solver, 'conic'
    if layer == 'soc':
        return (grb_solver, 'conic') if has_int else (eco_solver, 'conic')
    return None, 'lp'


def nearby(xs, delta):
    """the point and the corners of the box of half-width delta around it (coordinate moves only beyond 6 entries)"""
    import itertools
    xs = np.asarray(xs, dtype=float)
    yield xs
    if len(xs) <= 6:
        for sg in itertools.product((-1.0, 1.0), repeat=len(xs)):
            yield xs + delta * np.array(sg)
    else:
        for j in range(len(xs)):
            for sg in (-1.0, 1.0):
                xp = xs.copy()
                xp[j] += sg * delta
                yield xp


def evaluate(case, xs, objval, kind):
    """NumPy re-evaluation of every user constraint and the objective at xs; returns (fail or None, focus_active).
    The solvers return points that satisfy the compiled rows only up to their feasibility tolerance, and a residual of the user's
    inequality is not a distance where the function is steep (y*z with a large z, roots at 0, s*exp(x/s) at s = 0): a constraint
    counts as violated only if it is violated at the returned point and at every corner of the box of relative half-width tol
    around it; the objective value has to lie in the range the user objective takes over that box."""
    tol = 1e-6 if kind == 'lp' else 5e-5
    delta = tol * (1 + float(np.max(np.abs(xs)))) if len(xs) else tol
    res = detmodel.residuals(case, xs)
    worst = None
    bad = [(i, name, viol, scale) for i, (name, viol, scale) in enumerate(res) if not viol <= tol * scale]
    if bad:
        with np.errstate(all='ignore'):
            near = []
            for xp in nearby(xs, delta):
                try:
                    near.append(detmodel.residuals(case, xp))
                except (ValueError, FloatingPointError, ZeroDivisionError):
                    pass
        for i, name, viol, scale in bad:
            if any(len(r) == len(res) and r[i][1] <= tol * r[i][2] for r in near):
                continue
            if worst is None or viol / scale > worst[1] / worst[2]:
                worst = (name, viol, scale)
    if worst is not None:
        nm = worst[0].split(':')
        tag = nm[1] if len(nm) > 1 else ''.join(ch for ch in nm[0] if not ch.isdigit() and ch != '.')
        return ('constraint:%s' % tag, 'user constraint %s is violated by %.4g at the returned point x=%s' % (
            worst[0], worst[1], np.round(xs, 6).tolist())), False
    ov = detmodel.objective_value(case, xs)
    if abs(ov - objval) > 10 * tol * (1 + abs(ov)):
        with np.errstate(all='ignore'):
            vals = []
            for xp in nearby(xs, delta):
                try:
                    v = float(detmodel.objective_value(case, xp))
                except (ValueError, FloatingPointError, ZeroDivisionError):
                    continue
                if np.isfinite(v):
                    vals.append(v)
        if vals and min(vals) - 10 * tol * (1 + abs(min(vals))) <= objval <= max(vals) + 10 * tol * (1 + abs(max(vals))):
            return None, False
        oa = case['obj'].get('atom')
        return ('objective:%s' % (oa['atom'] if oa else 'affine'),
                'model.get()=%.9g but the user objective evaluates to %.9g at the returned point x=%s' % (
                    objval, ov, np.round(xs, 6).tolist())), False
    active = False
    if case.get('focus'):
        kind_f, idx = case['focus']
        f = _viol_fun(case, kind_f, idx)
        active = abs(f(xs)) <= 1e-4 * (1 + np.max(np.abs(xs)))
    return None, active


class C06(Prop):
    id = 'C06'
    rule = ('deterministic models over every atom of the front ends (abs, 1/2/inf-norm, p-norm soc/exc, square, sumsqr, quad '
            'PSD/NSD, power p/q, gmean, exp, log, pexp, plog, entropy, softplus, exp(.).sum(), log(.).sum(), maxof, minof; '
            'rsocone, expcone, kldiv constraints), each composed with an affine map, positive multipliers, double negation, '
            'affine offsets on either side, six spellings; as constraint and as objective; continuous/integer/binary variables; '
            'ro and single-scenario dro front ends; box-bounded so any objective is bounded; the affine objective is aimed along '
            'the outward normal of a focus constraint. Oracle: NumPy re-evaluation (own atom formulas) of every user constraint '
            'at x.get() and of the user objective against model.get(). Non-trivial = solved, and the focus constraint is active '
            'or the objective contains an atom; distinct by IR hash.')
    assumptions = ['residual tolerance 1e-6*(scale) for LP/MILP (HiGHS), 5e-5*(scale) when ECOS/Gurobi solve a conic program',
                   'a constraint is violated only if it is violated at the returned point and at all corners of the box of relative half-width tol around it; '
                   'model.get() has to lie in the range of the user objective over that box (steep functions: y*z with large z, roots at 0, s*exp(x/s) at s=0)',
                   'models reported infeasible/failed by the solver are skipped; a bounded feasible model reported unbounded by an LP '
                   'solver is a violation (dropped constraint/objective)']
    crash_is_violation = False

    def examples(self, tier):
        return 3200 if tier == 'quick' else 100000

    def strategy(self, tier):
        return st.integers(0, 7).flatmap(lambda k_: bcast_case() if k_ == 0 else c06_case())

    def check(self, case):
        if case.get('kind') == 'bcast':
            return check_bcast(case)
        labels = ['fam:' + case['fam'], 'front:' + case['front']] + ['atom:' + a['atom'] for a in case['atoms']] + \
                 ['cone:' + c['t'] for c in case['cones']]
        if case['obj'].get('atom'):
            labels.append('objatom:' + case['obj']['atom']['atom'])
        if any(t in 'IB' for t in case['vtypes']):
            labels.append('integer')
        m, x, pieces = detmodel.build(case)
        detmodel.declare(case, m, x, pieces)
        solver, kind = solver_choice(case)
        val = detmodel.solve_model(m, solver)
        if val is None:
            stt = getattr(m.solution, 'status', None)
            if kind == 'lp' and stt == 3:
                return Outcome.fail('unbounded:lp', 'a box-bounded model was reported unbounded (status 3): a constraint or the objective was dropped', labels)
            if str(stt) == 'Dual infeasible':      # ECOS' certificate of unboundedness (the '(inaccurate)' variants are not trusted)
                oa = case['obj'].get('atom')
                return Outcome.fail('unbounded:conic:%s' % (oa['atom'] if oa else 'affine'),
                                    'a box-bounded model was reported unbounded by ECOS (certificate): a constraint or the objective was dropped', labels)
            return Outcome.skip('not_optimal', labels)
        xs = detmodel.get_x(case, pieces)
        fail, active = evaluate(case, xs, val, kind)
        if fail:
            return Outcome.fail(fail[0], fail[1], labels)
        if active:
            labels.append('focus_active:' + case['focus'][0])
        return Outcome.ok(active or bool(case['obj'].get('atom')), labels)


PROP = C06()
