"""C09 - sets and expressions do not leak: results are independent of the build history.

A history is a robust model (C01 IR, plus optional deterministic convex constraints on x and a variable declared late)
together with a schedule: when each constraint object is created (forall() mutates the shared support model at that
moment), when it is handed to st(), where the objective is defined, and where do_math(primal/dual)/solve happen.  After
every phase the live model must agree with the model-so-far rebuilt from scratch in canonical order, and with the
independent cutting-plane reference when one is available.
"""
import copy

import numpy as np
from hypothesis import strategies as st

from vf.core import Prop, Outcome
from vf import romodel, rosets, detmodel, opseq
from vf.quiet import quiet

DET_ATOMS = ['abs', 'norm1', 'norminf', 'norm2', 'square', 'exp', 'log', 'softplus', 'entropy', 'sumexp', 'pnorm', 'power']


@st.composite
def c09_case(draw):
    base = draw(romodel.ro_case(max_cons=4))
    base['obj'].pop('extra', None)          # histories use single-piece objectives
    ncons = len(base['cons'])
    nphase = draw(st.integers(1, 3))
    # constraints that keep the problem bounded (LDR bounds, pinned equalities) belong to phase 0
    phase = []
    for con in base['cons']:
        core = con.get('given') or (len(con['rows']) == 1 and not any(con['rows'][0]['a0']) and not any(any(r) for r in con['rows'][0]['A'])
                                    and not any(con['rows'][0]['c']))
        phase.append(0 if core else draw(st.integers(0, nphase - 1)))
    xb = base['witness']['x']
    datoms = []
    for _ in range(draw(st.integers(0, 2))):
        a = draw(detmodel.atom_use(base['nx'], xb, DET_ATOMS))
        a['phase'] = draw(st.integers(0, nphase - 1))
        datoms.append(a)
    late = draw(st.integers(0, 2)) == 0 and nphase > 1
    late_rows = []
    if late:
        # a variable declared after the first solve, used by one extra (phase >= 1) robust row
        row = {'a0': romodel._vec(draw, base['nx']), 'A': [[0.0] * (base['nz'] + base['nu'])] * base['nx'], 'b': [0.0] * base['ny'],
               'c': romodel._vec(draw, base['nz'] + base['nu']), 'c0': None, 'slack': draw(st.sampled_from([0.0, 1.0])),
               'a2': draw(st.sampled_from([-1.0, 1.0, 2.0])), 'x2bar': float(draw(st.integers(-1, 2)))}
        late_rows.append({'set': None, 'sense': 'le', 'rows': [row], 'style': draw(st.integers(0, 4)), 'late': True,
                          'phase': draw(st.integers(1, nphase - 1)),
                          # the late variable is an integer in half of the cases (column types must follow the columns)
                          'vtype': draw(st.sampled_from(['C', 'I']))})
    sched = {'nphase': nphase, 'phase': phase,
             'create_early': [draw(st.booleans()) for _ in range(ncons)],
             'create_perm': draw(st.permutations(list(range(ncons)))),
             'st_perm': draw(st.permutations(list(range(ncons)))),
             'obj_pos': draw(st.integers(0, 2)),
             'end': [draw(st.sampled_from(['solve', 'primal+solve', 'dual+solve', 'solve+solve', 'dual+primal+solve'])) for _ in range(nphase)],
             'share_expr': draw(st.booleans()), 'set_objects': draw(st.sampled_from(['fresh', 'shared']))}
    return {'base': base, 'datoms': datoms, 'late_rows': late_rows, 'sched': sched}


def finish_late_rows(case):
    """constants of the late rows (witness with the late variable at x2bar)"""
    base = case['base']
    w = base['witness']
    x, y0 = np.array(w['x']), np.array(w['y0'])
    Y = np.array(w['Y']).reshape(base['ny'], base['nz'] + base['nu'])
    for con in case['late_rows']:
        s = base['sets'][0]
        for row in con['rows']:
            if row['c0'] is not None:
                continue
            row['c0'] = 0.0
            k, g = romodel.row_parts(row, x, y0, Y)
            k += row['a2'] * row['x2bar']
            val, _, exact = rosets.maximise(s, g)
            if val is None:
                val, exact = float(g @ rosets.centre_w(s)) + 10.0, False
            row['c0'] = float(-(k + val) - row['slack'] - (0.0 if exact else 0.5))


class Live:
    """the live RSOME model driven by the schedule"""

    def __init__(self, case):
        from rsome import ro
        self.case = case
        base = case['base']
        self.m = ro.Model()
        m = self.m
        nx, ny, nz, nu = base['nx'], base['ny'], base['nz'], base['nu']
        self.x = m.dvar(nx)
        self.z = m.rvar(nz)
        self.u = m.rvar(nu) if nu else None
        self.y = m.ldr(ny) if ny else None
        mask = np.array(base['ymask']).reshape(ny, nz + nu)
        for k in range(ny):
            for (rv, off, n) in ((self.z, 0, nz), (self.u, nz, nu)):
                if rv is None:
                    continue
                for j in range(n):
                    if mask[k, off + j]:
                        self.y[k].adapt(rv[j])
        self.x2 = None
        self.shared_sets = None
        self.exprs = {}

    def set_args(self, k):
        base = self.case['base']
        if self.case['sched']['set_objects'] == 'shared':
            if self.shared_sets is None:       # constraint objects of every set created once and reused by several forall()
                self.shared_sets = [rosets.rsome_constraints(s, self.z, self.u) for s in base['sets']]
            return self.shared_sets[k]
        return rosets.rsome_constraints(base['sets'][k], self.z, self.u)

    def make_constraint(self, con, default_needed):
        base = self.case['base']
        nz = base['nz']
        out = []
        for row in con['rows']:
            key = None
            if self.case['sched']['share_expr']:
                key = (tuple(row['a0']), tuple(map(tuple, row['A'])), tuple(row['b']), tuple(row['c']), con['style'])
            if key is not None and key in self.exprs:
                e = self.exprs[key]
            else:
                r0 = dict(row, c0=0.0)
                e = romodel._row_expr(r0, self.x, self.y, self.z, self.u, nz, con['style'])
                if key is not None:
                    self.exprs[key] = e            # the same expression object is reused by later constraints
            if row.get('a2'):
                e = e + row['a2'] * self.x2[0]
            e = e + row['c0'] if not (isinstance(e, float) and e == 0.0) else row['c0']
            sc = con.get('scale', 1.0)
            if sc != 1.0:
                e = sc * e
            c = (e <= 0) if con['sense'] == 'le' else (e >= 0) if con['sense'] == 'ge' else (e == 0)
            k = con['set']
            if k is None and default_needed:
                k = 0
            if k is not None and hasattr(c, 'forall'):
                c = c.forall(self.set_args(k))
            out.append(c)
        return out


def objective(live, base):
    o = base['obj']
    m = live.m
    if o['kind'] in ('min', 'max'):
        e = np.array(o['d0']) @ live.x + o['f0']
        (m.min if o['kind'] == 'min' else m.max)(e)
    else:
        row = {'a0': o['d0'], 'A': o['D'], 'b': o['e'], 'c': o['f'], 'c0': o['f0']}
        e = romodel._row_expr(row, live.x, live.y, live.z, live.u, base['nz'], o.get('style', 0))
        (m.minmax if o['kind'] == 'minmax' else m.maxmin)(e, live.set_args(0))


def solver_for(case):
    from rsome import eco_solver
    base = case['base']
    solver, kind = romodel.pick_solver(base)
    layers = [detmodel.atom_layer(a) for a in case['datoms']]
    if any(l in ('soc', 'exp') for l in layers):
        return eco_solver, 'conic'
    return solver, kind


def run_history(case):
    """returns list of per-phase dicts {'value':.., 'dual_values': [...]}"""
    base, sched = case['base'], case['sched']
    live = Live(case)
    m = live.m
    default_needed = base['obj']['kind'] in ('min', 'max')
    solver, kind = solver_for(case)
    ncons = len(base['cons'])
    cons_all = list(base['cons'])
    objs = {}
    # early creation of constraint objects, in create_perm order (each forall() re-uses the shared support model)
    for i in sched['create_perm']:
        if sched['create_early'][i]:
            objs[i] = live.make_constraint(cons_all[i], default_needed)
    obj_done = False
    if sched['obj_pos'] == 0:
        objective(live, base)
        obj_done = True
    m.st(live.x >= np.array(base['xlo']), live.x <= np.array(base['xhi']))
    results = []
    for ph in range(sched['nphase']):
        if ph == 1 and case['late_rows']:
            live.x2 = m.dvar(1, case['late_rows'][0].get('vtype', 'C'))
            m.st(live.x2 >= -3, live.x2 <= 3)
        todo = [i for i in sched['st_perm'] if sched['phase'][i] == ph]
        for n_, i in enumerate(todo):
            if i not in objs:
                objs[i] = live.make_constraint(cons_all[i], default_needed)
            if not obj_done and sched['obj_pos'] == 1 and n_ == len(todo) // 2:
                objective(live, base)
                obj_done = True
            cs = objs[i]
            m.st(cs if len(cs) > 1 else cs[0])
        for con in case['late_rows']:
            if con['phase'] == ph:
                cs = live.make_constraint(con, default_needed)
                m.st(cs)
        for a in case['datoms']:
            if a['phase'] == ph:
                m.st(detmodel.atom_constraint(a, live.x))
        if not obj_done:
            objective(live, base)
            obj_done = True
        rec = {'value': None, 'dual': None, 'status': None}
        for act in sched['end'][ph].split('+'):
            with quiet():
                if act == 'primal':
                    m.do_math()
                elif act == 'dual':
                    d = m.do_math(primal=False)
                    from rsome.lp import def_sol
                    sd = def_sol(d, display=False) if solver is None else solver.solve(d, display=False)
                    if sd is not None and sd.x is not None and not np.isnan(sd.objval) and 'lose' not in str(sd.status):
                        rec['dual'] = float(sd.objval)
                else:
                    m.solve(solver, display=False)
                    sol = m.solution
                    ok = sol is not None and sol.x is not None and not np.isnan(sol.objval) and 'lose' not in str(sol.status)
                    v = m.get() if ok else None
                    if rec['value'] is not None and v is not None and abs(v - rec['value']) > 1e-7 * (1 + abs(v)):
                        rec['resolve_differs'] = (rec['value'], v)
                    rec['value'] = v
                    rec['status'] = getattr(sol, 'status', None)
        rec['sign'] = m.sign
        results.append(rec)
    return results, kind


def scratch_value(case, upto):
    """the model declared up to phase `upto`, built from scratch in canonical order and solved once"""
    base, sched = case['base'], case['sched']
    c2 = copy.deepcopy(case)
    c2['sched'] = dict(sched, share_expr=False, set_objects='fresh')
    live = Live(c2)
    m = live.m
    default_needed = base['obj']['kind'] in ('min', 'max')
    if case['late_rows'] and upto >= 1:
        live.x2 = m.dvar(1, case['late_rows'][0].get('vtype', 'C'))
    objective(live, base)
    m.st(live.x >= np.array(base['xlo']), live.x <= np.array(base['xhi']))
    if live.x2 is not None:
        m.st(live.x2 >= -3, live.x2 <= 3)
    for i, con in enumerate(base['cons']):
        if sched['phase'][i] <= upto:
            cs = live.make_constraint(con, default_needed)
            m.st(cs if len(cs) > 1 else cs[0])
    for con in case['late_rows']:
        if con['phase'] <= upto:
            m.st(live.make_constraint(con, default_needed))
    for a in case['datoms']:
        if a['phase'] <= upto:
            m.st(detmodel.atom_constraint(a, live.x))
    solver, kind = solver_for(case)
    with quiet():
        m.solve(solver, display=False)
    sol = m.solution
    ok = sol is not None and sol.x is not None and not np.isnan(sol.objval) and 'lose' not in str(sol.status)
    return (m.get() if ok else None), getattr(sol, 'status', None)


class C09(Prop):
    id = 'C09'
    crash_is_violation = True
    rule = ('histories over an ro model from the C01 generator (several uncertainty sets of different families, LDRs, per-constraint '
            'sets) extended with deterministic convex constraints on x and a variable declared after the first solve. The schedule '
            'draws: which constraint objects are created early (all forall() calls first, in a random order, so sets of different '
            'constraints are defined between creation and use) or just in time; the st() order; the position of minmax(); 1-3 phases '
            'each ending with solve / do_math()+solve / do_math(dual)+solve / solve twice / dual+primal+solve, with further st() (and '
            'a new dvar) in later phases; reuse of one expression object by several constraints and of the same set constraint '
            'objects by several forall(). Oracle: after every phase the optimum (and the optimum of the returned dual program, '
            'negated) equals that of the model-so-far rebuilt from scratch in canonical order with the same solver, and - for sets '
            'with an exact maximiser and no deterministic atoms - the independent cutting-plane optimum of the final model. '
            'Non-trivial = >= 2 distinct sets and at least one of: constraint objects created out of st-order, a later phase with '
            'further declarations and a re-solve, a shared expression or set object; distinct by IR hash.')
    assumptions = ['tolerance 1e-6 (LP) / 2e-4 (conic) relative; a cone-solver failure in either build is inconclusive for that phase',
                   'the dro front end is covered by the dro part of this check (ambiguity sets in any order, re-solve after st)']

    def examples(self, tier):
        return 800 if tier == 'quick' else 16000

    def strategy(self, tier):
        return c09_or_dro()

    def check(self, case):
        if case.get('kind') == 'dro':
            return check_dro(case)
        if case.get('kind') == 'expfam':
            return check_expfam(case)
        if case.get('kind') == 'reuse':
            return check_reuse(case)
        if case.get('kind') == 'opseq':
            return check_opseq(case)
        finish_late_rows(case)
        base, sched = case['base'], case['sched']
        late_int = False
        if case['late_rows'] and case['late_rows'][0].get('vtype') == 'I':
            if solver_for(case)[1] == 'lp':
                late_int = True
            else:       # branch and bound inside ECOS is too inaccurate for the comparison: the late variable stays continuous
                case = dict(case, late_rows=[dict(case['late_rows'][0], vtype='C')])
        labels = ['phases:%d' % sched['nphase'], 'obj:' + base['obj']['kind'], 'set_objects:' + sched['set_objects']] + (['late_integer_variable'] if late_int else [])
        fams = sorted(set(f for s in base['sets'] for f in rosets.families_of(s)))
        labels += ['end:' + e for e in sched['end']]
        res, kind = run_history(case)
        tol = 1e-6 if kind == 'lp' else 2e-4
        compared = 0
        for ph, rec in enumerate(res):
            if rec.get('resolve_differs'):
                return Outcome.fail('resolve_differs', 'phase %d: solving twice without changes gave %.9g then %.9g' % ((ph,) + rec['resolve_differs']), labels)
            ref, st_ = scratch_value(case, ph)
            if ref is None or rec['value'] is None:
                if kind == 'lp' and (ref is None) != (rec['value'] is None):
                    return Outcome.fail('status:phase%d' % min(ph, 1), 'phase %d: history gives %r (status %s), from-scratch build gives %r (status %s)' % (
                        ph, rec['value'], rec['status'], ref, st_), labels)
                continue
            if abs(rec['value'] - ref) > tol * (1 + abs(ref)):
                return Outcome.fail('history_vs_scratch:phase%d:%s' % (min(ph, 1), 'atoms' if case['datoms'] else 'robust'),
                                    'phase %d: the model built by this history gives %.9g, the same model built from scratch gives %.9g' % (
                                        ph, rec['value'], ref), labels)
            if late_int and ph >= 1:
                rec['dual'] = None          # the dual of the continuous relaxation says nothing about the integer optimum
            if rec['dual'] is not None and abs(rec['sign'] * -rec['dual'] - ref) > 10 * tol * (1 + abs(ref)):
                return Outcome.fail('dual_stale:phase%d' % min(ph, 1), 'phase %d: do_math(primal=False) solves to %.9g but the declared model has optimum %.9g' % (
                    ph, -rec['dual'] * rec['sign'], ref), labels)
            compared += 1
        if compared == 0:
            return Outcome.skip('no_phase_compared', labels)
        # absolute oracle on the final robust model
        if not case['datoms'] and not case['late_rows'] and all(p <= sched['nphase'] - 1 for p in sched['phase']):
            kinds = set(t for s in base['sets'] for t in rosets.families_of(s))
            if not (kinds & {'pn', 'kl'}) or all(len(s['pieces']) == 1 for s in base['sets']):
                r2, info = romodel.reference_optimum(base)
                final = res[-1]['value']
                if r2 is not None and final is not None and abs(final - r2) > tol * 10 * (1 + abs(r2)):
                    return Outcome.fail('history_vs_reference', 'final model gives %.9g, the independent semi-infinite optimum is %.9g' % (final, r2), labels)
                if r2 is not None:
                    labels.append('reference_checked')
        out_of_order = any(sched['create_early']) and sched['create_perm'] != sorted(sched['create_perm'])
        nt = len(base['sets']) >= 2 and (out_of_order or sched['nphase'] > 1 or sched['share_expr'] or sched['set_objects'] == 'shared')
        return Outcome.ok(nt, labels + ['fam:' + f for f in fams])


# ----------------------------------------------------------------------------- dro histories
from vf import dromodel as D


@st.composite
def dro_history(draw):
    c = draw(D.dro_case(polyhedral=True, allow_kl=False, max_scen=3))
    nrows = len(c['cons'])
    return {'kind': 'dro', 'dro': c, 'late': [draw(st.booleans()) and i >= 2 * c['ny'] for i in range(nrows)],
            'order': draw(st.sampled_from(['supp_exp_prob', 'prob_exp_supp', 'exp_supp_prob'])),
            'extra_fset': draw(st.booleans()), 'mid': draw(st.sampled_from(['solve', 'primal', 'dual', 'solve+solve'])),
            # parts of the ambiguity set that are declared differently first and (re)declared after the first formulation
            'late_amb': sorted(draw(st.sets(st.sampled_from(['supp', 'exp', 'prob']), max_size=2))),
            # a decision array declared (and constrained) only after the first formulation
            'late_var': {'k': draw(st.integers(1, 2)), 'g': D._vec(draw, c['nx']), 'c': D._vec(draw, c['nz'] + c['nu']),
                         'slack': draw(st.sampled_from([0.0, 0.5, 1.0, 3.0])),
                         'adapt': draw(st.sampled_from(['none', 'event', 'affine']))} if draw(st.booleans()) else None}


@st.composite
def expfam_history(draw):
    """a model whose constraints are all of the exponential-cone family (no bounds, no linear rows): the cut added after
    the first solve must not be lost"""
    n = draw(st.integers(1, 3))
    c = [draw(st.sampled_from([-1.0, 0.0, 1.0, 2.0])) for _ in range(n)]
    return {'kind': 'expfam', 'n': n, 'c': c, 'cut': draw(st.sampled_from([0.25, 0.5, 0.75])), 'j': draw(st.integers(0, n - 1)),
            'front': draw(st.sampled_from(['ro', 'dro'])), 'late_kind': draw(st.sampled_from(['exp', 'log', 'softplus'])),
            'mid': draw(st.sampled_from(['solve', 'primal', 'dual', 'solve+dual']))}


@st.composite
def reuse_history(draw):
    """one expression object used inside E(maxof(...)) / E(minof(...)), inside a set-free robust constraint and inside a plain
    expectation constraint, in a drawn order"""
    n = draw(st.integers(1, 2))
    nz = draw(st.integers(1, 2))
    return {'kind': 'reuse', 'n': n, 'nz': nz, 'a': [draw(st.sampled_from([1.0, 2.0, -1.0])) for _ in range(n)],
            'c': [draw(st.sampled_from([1.0, -1.0, 2.0, 0.5])) for _ in range(nz)], 'c0': draw(st.sampled_from([0.0, 1.0, -1.0])),
            'mean': [draw(st.sampled_from([0.25, 0.5, 0.75])) for _ in range(nz)], 'r': draw(st.sampled_from([0.25, 0.5, 1.0])),
            'order': draw(st.permutations(['obj', 'robust', 'expect'])), 'other_piece': draw(st.sampled_from([0.0, 1.0, -0.5])),
            'sense': draw(st.sampled_from(['minsup', 'maxinf']))}


@st.composite
def c09_or_dro(draw):
    k = draw(st.integers(0, 11))
    if k >= 9:
        return draw(opseq.opseq_case())
    if k <= 1:
        return draw(dro_history())
    if k == 2:
        return draw(expfam_history())
    if k == 3:
        return draw(reuse_history())
    return draw(c09_case())


def check_opseq(case):
    """free-form API history (vf/opseq.py): every formulation call against the independent optimum of the model declared so far"""
    model, sched = case['model'], case['sched']
    conic = opseq.is_conic(model)
    tol = 2e-4 if conic else 1e-6
    nform = sum(1 for o in sched if o[0] == 'form')
    labels = ['kind:opseq', 'opseq:forms:%d' % nform, 'opseq:obj:' + model['obj']['kind'], 'opseq:' + ('conic' if conic else 'lp')]
    first_form = next(i for i, o in enumerate(sched) if o[0] == 'form')
    decl_after = sorted(set(o[0] for o in sched[first_form:] if o[0] in ('dvar', 'rvar', 'ldr', 'adapt', 'set')))
    labels += ['opseq:after_formulation:' + t for t in decl_after]
    first_adapt = next((i for i, o in enumerate(sched) if o[0] == 'adapt'), None)
    first_obj = next(i for i, o in enumerate(sched) if o[0] == 'obj')
    late_rv = first_adapt is not None and any(o[0] == 'rvar' for o in sched[first_adapt:])
    rv_after_obj = any(o[0] == 'rvar' for o in sched[first_obj:])
    if late_rv:
        labels.append('opseq:rvar_after_adapt')
    if rv_after_obj:
        labels.append('opseq:rvar_after_objective')
    try:
        recs = opseq.run(model, sched)
    except Exception as ex:
        from vf.core import rsome_frame
        if rsome_frame(ex.__traceback__) is None:
            raise
        return Outcome.fail('opseq:raises:%s:%s' % (type(ex).__name__, rsome_frame(ex.__traceback__)),
                            'a legitimate call sequence raises %r' % (ex,), labels)
    compared = 0
    nontrivial = False
    scratch = None
    for n_, rec in enumerate(recs):
        ref, why = opseq.reference(model, rec)
        if ref is None and why != 'infeasible':
            labels.append('opseq:reference:' + why)
            continue
        where = 'formulation call %d of %d (%s, position %d)' % (n_ + 1, len(recs), rec['act'], rec['pos'])
        if rec.get('nan'):
            return Outcome.fail('opseq:coefficient_nan_pattern', where + ': ' + '; '.join(rec['nan'][:3]), labels)
        if 'solve' in rec['act']:
            if rec['first'] is not None and rec['value'] is not None and abs(rec['first'] - rec['value']) > 1e-7 * (1 + abs(rec['value'])):
                return Outcome.fail('opseq:resolve_differs', where + ': solving twice gave %.9g then %.9g' % (rec['first'], rec['value']), labels)
            if ref is None:
                if rec['value'] is not None and not conic:
                    return Outcome.fail('opseq:infeasible_model_solved', where + ': the declared model is infeasible, the history reports optimum %.9g '
                                        '(status %s)' % (rec['value'], rec['status']), labels)
                labels.append('opseq:infeasible')
                continue
            if rec['value'] is None:
                if conic:
                    labels.append('opseq:cone_solver_failed')
                    continue
                return Outcome.fail('opseq:no_solution', where + ': no solution (status %s), the declared model has optimum %.9g' % (rec['status'], ref), labels)
            if abs(rec['value'] - ref) > tol * (1 + abs(ref)):
                if scratch is None and n_ == len(recs) - 1:
                    try:
                        scratch = opseq.run(model, case['canonical'])[-1]['value']
                    except Exception:      # noqa
                        scratch = 'raises'
                return Outcome.fail('opseq:history_vs_reference' + (':conic' if conic else ''),
                                    where + ': the history gives %.9g, the model declared so far has optimum %.9g%s' % (
                                        rec['value'], ref, '' if scratch is None else ' (the same calls in canonical order give %r)' % (scratch,)), labels)
            compared += 1
            nontrivial = nontrivial or abs(ref - model['obj']['f0'] * (1 if model['obj']['kind'] in ('min', 'minmax') else -1)) > 1e-9
        if rec['dual'] is not None and ref is not None and abs(-rec['dual'] - ref) > 10 * tol * (1 + abs(ref)):
            return Outcome.fail('opseq:dual_vs_reference', where + ': do_math(primal=False) solves to %.9g, the model declared so far has optimum %.9g' % (
                -rec['dual'], ref), labels)
    if compared == 0:
        return Outcome.skip('opseq_nothing_compared', labels)
    return Outcome.ok(nontrivial and (nform > 1 or late_rv or rv_after_obj or bool(decl_after)), labels)


def check_reuse(case):
    import rsome as rso
    from rsome import dro, E
    labels = ['kind:reuse', 'order:' + '-'.join(case['order']), 'sense:' + case['sense']]
    n, nz = case['n'], case['nz']
    a, c = np.array(case['a']), np.array(case['c'])

    def build(shared):
        m = dro.Model()
        x = m.dvar(n)
        z = m.rvar(nz)
        fs = m.ambiguity()
        fs.suppset(z >= 0, z <= 1)
        fs.exptset(E(z) == np.array(case['mean']))
        one = a @ x + c @ z + case['c0']

        def expr():
            return one if shared else a @ x + c @ z + case['c0']
        lo = case['sense'] == 'minsup'
        for what in case['order']:
            if what == 'obj':
                if lo:
                    m.minsup(E(rso.maxof(expr(), case['other_piece'])) + x.sum(), fs)
                else:
                    m.maxinf(E(rso.minof(expr(), case['other_piece'])) - x.sum(), fs)
            elif what == 'robust':
                m.st(expr() >= case['r']) if lo else m.st(expr() <= -case['r'])
            else:
                m.st(E(expr()) >= case['r'] + 0.25) if lo else m.st(E(expr()) <= -case['r'] - 0.25)
        m.st(x >= -4, x <= 4)
        with quiet():
            m.solve(display=False)
        sol = m.solution
        return m.get() if sol is not None and sol.x is not None and not np.isnan(sol.objval) else None
    v1, v2 = build(True), build(False)
    if v1 is None or v2 is None:
        if (v1 is None) != (v2 is None):
            return Outcome.fail('reuse:status', 'shared expression object: %r, fresh expressions: %r' % (v1, v2), labels)
        return Outcome.skip('not_optimal', labels)
    if abs(v1 - v2) > 1e-6 * (1 + abs(v2)):
        return Outcome.fail('reuse:value', 'one expression object used in E(piecewise), a robust and an expectation constraint gives %.9g; '
                                           'the same model with fresh expressions gives %.9g' % (v1, v2), labels)
    return Outcome.ok(True, labels)


def check_expfam(case):
    import rsome as rso
    from rsome import ro, dro, eco_solver
    labels = ['kind:expfam', 'front:' + case['front'], 'late:' + case['late_kind'], 'mid:' + case['mid']]
    n, c, j = case['n'], np.array(case['c']), case['j']

    def declare(late):
        m = ro.Model() if case['front'] == 'ro' else dro.Model()
        x = m.dvar(n)
        t = m.dvar(n)
        m.min(t.sum())
        for i in range(n):
            # exp(x_i - c_i) + exp(-x_i) <= t_i : minimum 2*exp(-c_i/2) at x_i = c_i/2
            m.st(rso.exp(rso.vec(x[i] - c[i], -x[i])).sum() <= t[i])
        return m, x, t

    def add_late(m, x):
        lim = c[j] / 2 - case['cut']                       # forces x_j <= c_j/2 - cut (a strictly worse point)
        if case['late_kind'] == 'exp':
            m.st(rso.exp(x[j] - lim) <= 1)
        elif case['late_kind'] == 'log':
            m.st(rso.log(lim - x[j] + 1) >= 0)
        else:
            m.st(rso.softplus(x[j] - lim) <= float(np.log(2.0)))     # log(1+exp(u)) <= log 2  <=>  u <= 0
    m, x, t = declare(False)
    with quiet():
        for a in case['mid'].split('+'):
            if a == 'primal':
                m.do_math()
            elif a == 'dual':
                m.do_math(primal=False)
            else:
                m.solve(eco_solver, display=False)
    add_late(m, x)
    with quiet():
        m.solve(eco_solver, display=False)
    s1 = m.solution
    v1 = m.get() if s1 is not None and s1.x is not None and not np.isnan(s1.objval) and 'lose' not in str(s1.status) else None
    m2, x2, t2 = declare(True)
    add_late(m2, x2)
    with quiet():
        m2.solve(eco_solver, display=False)
    s2 = m2.solution
    v2 = m2.get() if s2 is not None and s2.x is not None and not np.isnan(s2.objval) and 'lose' not in str(s2.status) else None
    if v1 is None or v2 is None:
        return Outcome.skip('not_optimal', labels)
    xs = c / 2.0
    xs[j] = c[j] / 2 - case['cut']
    closed = float(np.sum(np.exp(xs - c) + np.exp(-xs)))
    if abs(v1 - v2) > 2e-4 * (1 + abs(v2)):
        return Outcome.fail('expfam:history_vs_scratch', 'after solve + st(%s constraint) + solve the optimum is %.9g; from scratch it is %.9g' % (
            case['late_kind'], v1, v2), labels)
    if closed is not None and abs(v1 - closed) > 2e-4 * (1 + abs(closed)):
        return Outcome.fail('expfam:closed_form', 'optimum %.9g, closed form %.9g' % (v1, closed), labels)
    return Outcome.ok(True, labels)


def check_dro(case):
    """dro: a second ambiguity set is defined (and filled) between the first one and its use; constraints added after a
    solve; result must equal the from-scratch model"""
    c = case['dro']
    labels = ['kind:dro', 'mid:' + case['mid']]
    import rsome as rso
    import copy
    c0 = dict(c, cons=[r for r, late in zip(c['cons'], case['late']) if not late])
    la = [p_ for p_ in case.get('late_amb', []) if not (p_ == 'supp' and c['nu']) and not (p_ == 'exp' and not c['exps'])]
    if 'supp' in la:        # wider boxes first; the declared supports replace them after the first formulation
        c0['supports'] = [{'nz': s_['nz'], 'nu': 0, 'centre': s_['centre'], 'pieces': [
            {'t': 'box', 'lo': [v - 4.0 for v in s_['centre']], 'hi': [v + 4.0 for v in s_['centre']], 'style': 'bounds'}]} for s_ in c['supports']]
    if 'exp' in la:         # the last expectation set is declared only after the first formulation
        c0['exps'] = c['exps'][:-1]
    if 'prob' in la:        # no probability information first
        c0['prob'] = {'t': 'free'}
    labels += ['late_amb:' + p_ for p_ in la]
    m, h = D.build(c0)
    solver, kind = D.pick_solver(c)
    acts = case['mid'].split('+')
    with quiet():
        for a in acts:
            if a == 'primal':
                m.do_math()
            elif a == 'dual':
                m.do_math(primal=False)
            else:
                m.solve(solver, display=False)
    x, y, z, u = h['x'], h['y'], h['z'], h['u']
    nz, nu, ny = c['nz'], c['nu'], c['ny']
    if la:
        h['declare_amb'](h['fset'], c, parts=[p_ for p_ in la if p_ != 'exp'])
        if 'exp' in la:
            h['declare_amb'](h['fset'], c, parts=['exp'], exps=c['exps'][-1:])
    lv = case.get('late_var')

    def add_late_var(mm, hh):
        # w in [-1, 1]; g.x + sum(w) + c.w_rand >= const, feasible at the witness with w = 1 (so w is needed at its bound)
        k = lv['k']
        wv = mm.dvar(k)
        lab = hh['labels']
        if lv['adapt'] in ('event', 'affine') and c['S'] > 1:
            wv.adapt(lab[c['S'] - 1])
        if lv['adapt'] == 'affine':
            wv.adapt(hh['z'])
        g = np.array(lv['g'])
        cc_ = np.array(lv['c'], dtype=float)
        worst = min(-D.support_max(sp_, -cc_, fallback=0.0) for sp_ in c['supports']) if np.any(cc_) else 0.0
        const = float(g @ np.array(c['witness']['x']) + k + worst - lv['slack'])
        e_ = g @ hh['x'] + wv.sum()
        if np.any(cc_[:nz]):
            e_ = e_ + cc_[:nz] @ hh['z']
        if nu and cc_[nz]:
            e_ = e_ + float(cc_[nz]) * hh['u']
        mm.st(wv <= 1, wv >= -1)
        mm.st(e_ >= const)
    if lv:
        labels.append('late_var:' + lv['adapt'])
        add_late_var(m, h)
    for row, late in zip(c['cons'], case['late']):
        if not late:
            continue
        e = np.array(row['a0']) @ x + row['c0']
        if ny and any(row['b']):
            e = e + y(row['b'])
        cc = np.array(row['c'])
        if np.any(cc[:nz]):
            e = e + cc[:nz] @ z
        if nu and cc[nz]:
            e = e + float(cc[nz]) * u
        m.st(e <= 0 if row['sense'] == 'le' else e >= 0)
    try:
        v1 = D.solve(m, solver)
    except Exception as ex:
        return Outcome.fail('dro:resolve_raises', 're-solve after the history raises %r (the from-scratch build is solved below)' % (ex,), labels)
    m2, h2 = D.build(c)
    if lv:
        add_late_var(m2, h2)
    v2 = D.solve(m2, solver)
    if v1 is None or v2 is None:
        if (v1 is None) != (v2 is None) and kind == 'lp':
            return Outcome.fail('dro:status', 'history gives %r, from-scratch build gives %r' % (v1, v2), labels)
        return Outcome.skip('not_optimal', labels)
    if abs(v1 - v2) > 1e-6 * (1 + abs(v2)):
        return Outcome.fail('dro:history_vs_scratch', 're-solve after adding constraints gives %.9g, the from-scratch model gives %.9g' % (v1, v2), labels)
    return Outcome.ok(any(case['late']) or bool(la) or bool(lv), labels + (['late_rows'] if any(case['late']) else []))


PROP = C09()
