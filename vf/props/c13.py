"""C13 - decisions depend on uncertainty exactly as declared (non-anticipativity)."""
import itertools

import numpy as np
from hypothesis import strategies as st
from scipy.optimize import linprog

from vf.core import Prop, Outcome, case_hash
from vf import romodel, rosets
from vf import dromodel as D
from vf.quiet import quiet


def partitions(n):
    """all set partitions of range(n) as lists of sorted blocks"""
    if n == 0:
        yield []
        return
    for p in partitions(n - 1):
        for i in range(len(p)):
            yield p[:i] + [p[i] + [n - 1]] + p[i + 1:]
        yield p + [[n - 1]]


@st.composite
def adapt_sequence(draw, S):
    """a sequence of adapt() calls (each a block of scenarios still in the default event); the first block of the partition
    may stay implicit"""
    rem = list(range(S))
    calls = []
    for _ in range(draw(st.integers(0, S))):
        if not rem:
            break
        grp = sorted(draw(st.sets(st.sampled_from(rem), min_size=1, max_size=len(rem))))
        calls.append(grp)
        rem = [s for s in rem if s not in grp]
    return calls


@st.composite
def mix_case(draw, S=None):
    S = S or draw(st.integers(2, 4))
    zs = draw(st.permutations([float(v) for v in range(1, S + 1)]))
    parts = [draw(st.integers(1, 3)) for _ in range(S)]
    return {'mode': 'mix', 'S': S, 'z': list(zs), 'p': [v / sum(parts) for v in parts],
            'calls1': draw(adapt_sequence(S)), 'calls2': draw(adapt_sequence(S)),
            'c1': draw(st.sampled_from([1.0, 2.0, 3.0])), 'c2': draw(st.sampled_from([1.0, 2.0, 3.0])),
            'cap1': draw(st.sampled_from([1.0, 2.0, 10.0])), 'labels': draw(st.sampled_from(['int', 'str'])),
            'form': draw(st.integers(0, 2))}


@st.composite
def c13_case(draw):
    mode = draw(st.sampled_from(['mask_ro', 'mask_ro', 'part', 'part', 'mix', 'mix', 'illegal', 'static_rule']))
    if mode == 'static_rule':
        n = draw(st.integers(1, 3))
        return {'mode': 'static_rule', 'n': n, 'c': [float(draw(st.integers(1, 3))) for _ in range(n)],
                'lo': [float(draw(st.integers(-2, 2))) for _ in range(n)], 'when_rvar': draw(st.sampled_from(['never', 'before', 'after_ldr', 'after_use'])),
                'use': draw(st.sampled_from(['mul', 'add', 'matmul', 'slice']))}
    if mode == 'mask_ro':
        c = draw(romodel.ro_case(exact_only=True, max_cons=3, families=['box', 'l1', 'linf', 'poly', 'l2', 'budget', 'budget']))
        if c['ny'] == 0:
            c['ny'] = 0
        return {'mode': 'mask_ro', 'ro': c}
    if mode == 'part':
        c = draw(D.dro_case(polyhedral=True, allow_kl=False, max_scen=4))
        return {'mode': 'part', 'dro': c}
    if mode == 'mix':
        return draw(mix_case())
    return {'mode': 'illegal', 'which': draw(st.sampled_from(ILLEGAL)), 'n': draw(st.integers(1, 3)), 'S': draw(st.integers(2, 4))}


ILLEGAL = ['ro_twice', 'ro_overlap', 'ro_after_use', 'ro_slice_after_use', 'dro_scen_twice', 'dro_scen_overlap', 'dro_int_affine',
           'dro_bin_affine', 'dro_affine_twice', 'dro_affine_overlap', 'dro_affine_after_solve', 'dro_event_after_solve',
           'dro_affine_after_do_math', 'dro_unknown_scenario', 'dro_mixed_int_entry_affine', 'dro_mixed_int_whole_affine',
           'dro_mixed_int_slice_affine', 'dro_mixed_bin_entry_affine', 'dro_int_slice_affine']


def blocks_of(calls, S):
    rem = list(range(S))
    ev = []
    for g in calls:
        rem = [s for s in rem if s not in g]
        ev.append(list(g))
    return ([rem] if rem else []) + ev


def mix_reference(case):
    S = case['S']
    b1, b2 = blocks_of(case['calls1'], S), blocks_of(case['calls2'], S)
    i1 = {s: k for k, g in enumerate(b1) for s in g}
    i2 = {s: k for k, g in enumerate(b2) for s in g}
    n1, n2 = len(b1), len(b2)
    p, z = np.array(case['p']), np.array(case['z'])
    cost = np.zeros(n1 + n2)
    A, b = [], []
    for s in range(S):
        cost[i1[s]] += p[s] * case['c1']
        cost[n1 + i2[s]] += p[s] * case['c2']
        r = np.zeros(n1 + n2)
        r[i1[s]] = -1
        r[n1 + i2[s]] = -1
        A.append(r); b.append(-z[s])
    bounds = [(0, case['cap1'])] * n1 + [(0, 10)] * n2
    res = linprog(cost, A_ub=np.array(A), b_ub=np.array(b), bounds=bounds, method='highs')
    return (float(res.fun), b1, b2) if res.status == 0 else (None, b1, b2)


def mix_build(case):
    import rsome as rso
    from rsome import dro, E
    S = case['S']
    lab = list(range(S)) if case['labels'] == 'int' else ['k%d' % (7 * s % 11) for s in range(S)]
    m = dro.Model(S) if case['labels'] == 'int' else dro.Model(lab)
    y1, y2 = m.dvar(), m.dvar()
    z = m.rvar()
    fset = m.ambiguity()
    for s in range(S):
        fset[lab[s]].suppset(z == case['z'][s])
    fset.probset(m.p == np.array(case['p']))
    for g in case['calls1']:
        y1.adapt([lab[s] for s in g])
    for g in case['calls2']:
        y2.adapt([lab[s] for s in g] if len(g) > 1 else lab[g[0]])
    f = case['form']
    if f == 0:
        m.minsup(E(case['c1'] * y1 + case['c2'] * y2), fset)
        m.st(y1 + y2 >= z)
    elif f == 1:
        tot = case['c1'] * y1 + case['c2'] * y2
        m.minsup(E(tot), fset)
        m.st(z - y1 <= y2)
    else:
        m.minsup(E(case['c2'] * y2) + E(case['c1'] * y1), fset)
        m.st(rso.vec(y1, y2).sum() - z >= 0)
    m.st(y1 >= 0, y1 <= case['cap1'], y2 >= 0, y2 <= 10)
    return m, y1, y2, lab


def illegal(case):
    """returns None if an exception was raised at the illegal declaration (or the re-solve equals the from-scratch model)"""
    from rsome import ro, dro, E
    w, n, S = case['which'], case['n'], case['S']
    if w.startswith('ro'):
        m = ro.Model()
        y = m.ldr(n + 1)
        z = m.rvar(n + 1)
        if w == 'ro_twice':
            y.adapt(z); y.adapt(z)
        elif w == 'ro_overlap':
            y[0].adapt(z[0]); y.adapt(z)
        elif w == 'ro_after_use':
            e = y + 1
            y.adapt(z)
        else:
            e = 2 * y[0]
            y[1].adapt(z)
        return 'accepted'
    m = dro.Model(S)
    if w == 'dro_scen_twice':
        x = m.dvar(n); x.adapt(0); x.adapt(0)
    elif w == 'dro_scen_overlap':
        x = m.dvar(n); x.adapt([0, 1]); x.adapt(1)
    elif w == 'dro_unknown_scenario':
        x = m.dvar(n); x.adapt(S + 3)
    elif w in ('dro_int_affine', 'dro_bin_affine'):
        x = m.dvar(n, 'I' if 'int' in w else 'B'); z = m.rvar(n); x.adapt(z)
    elif w.startswith('dro_mixed') or w == 'dro_int_slice_affine':
        # arrays declared with a type string per entry: integer / binary entries must not get affine adaptation
        vt = {'dro_mixed_int_entry_affine': 'CIC', 'dro_mixed_int_whole_affine': 'CIC', 'dro_mixed_int_slice_affine': 'CCI',
              'dro_mixed_bin_entry_affine': 'CBC', 'dro_int_slice_affine': 'I'}[w]
        x = m.dvar(3, vt)
        z = m.rvar(n)
        x[0].adapt(z) if vt[0] == 'C' else None      # positive control: the continuous entry may adapt
        if w.endswith('entry_affine'):
            x[1].adapt(z)
        elif w == 'dro_mixed_int_whole_affine':
            x[1:].adapt(z) if False else x.adapt(z[0]) if n > 1 else x[1:].adapt(z)
        else:
            x[1:].adapt(z)
    elif w == 'dro_affine_twice':
        x = m.dvar(n); z = m.rvar(n); x.adapt(z); x.adapt(z)
    elif w == 'dro_affine_overlap':
        x = m.dvar(n); z = m.rvar(n); x[0].adapt(z[0]); x.adapt(z)
    else:
        x = m.dvar(); y = m.dvar(); z = m.rvar()
        fs = m.ambiguity()
        for s in range(S):
            fs[s].suppset(z == float(s))
        m.minsup(E(x + y), fs)
        m.st(y >= z - x, y >= 0, x >= 0.25, y <= 5, x <= 5)
        with quiet():
            if w == 'dro_affine_after_do_math':
                m.do_math()
            else:
                m.solve(display=False)
        if w == 'dro_event_after_solve':
            y.adapt(1)
        else:
            y.adapt(z)
        with quiet():
            m.solve(display=False)
        got = m.get()
        # from scratch
        m2 = dro.Model(S)
        x2 = m2.dvar(); y2 = m2.dvar(); z2 = m2.rvar()
        fs2 = m2.ambiguity()
        for s in range(S):
            fs2[s].suppset(z2 == float(s))
        if w == 'dro_event_after_solve':
            y2.adapt(1)
        else:
            y2.adapt(z2)
        m2.minsup(E(x2 + y2), fs2)
        m2.st(y2 >= z2 - x2, y2 >= 0, x2 >= 0.25, y2 <= 5, x2 <= 5)
        with quiet():
            m2.solve(display=False)
        if abs(got - m2.get()) <= 1e-7:
            return None
        return 'accepted, and the re-solve gives %.6g while the model declared from scratch gives %.6g' % (got, m2.get())
    return 'accepted'


def dro_late_rvar(case, labels):
    """dro: two affinely adaptive decisions, the second random array declared before or after the first adapt() call (and
    before / after the ambiguity set is created): same optimum, same dependence pattern, no exception"""
    from rsome import dro, E
    S, when, w2 = case['S'], case['when'], case['second']
    labels = labels + ['late_rvar:' + when, 'second:' + w2]

    def build(order):
        m = dro.Model(S)
        x, y1, y2 = m.dvar(), m.dvar(), m.dvar(2)
        z1 = m.rvar()
        z2 = m.rvar(2) if order == 'early' else None
        y1.adapt(z1)
        e = x * z1 - x                 # an expression object stored before the second random array exists
        if order == 'after_adapt':
            z2 = m.rvar(2)
        if w2 == 'whole':
            y2.adapt(z2)
        elif w2 == 'entry':
            y2[1].adapt(z2[0])
        fs = m.ambiguity()
        fs.suppset(abs(z1) <= 1, abs(z2) <= 2)
        fs.exptset(E(z1) == 0, E(z2) == 0)
        m.minsup(x + E(y1 + y2.sum()), fs)
        m.st(y1 >= z1 - x, y1 >= 0, y2 >= z2 - 2 * x, y2 >= -z2 - x, x >= 0, x <= 5)
        m.st(E(e) <= -1)               # E(x z1 - x) = -x: x >= 1
        with quiet():
            m.solve(display=False)
        pat = [np.isnan(np.asarray(y1.get(z1), dtype=float)).ravel().tolist()]
        if w2 != 'none':
            pat.append(np.isnan(np.asarray(y2.get(z2), dtype=float)).ravel().tolist())
            pat.append(np.isnan(np.asarray(y1.get(z2), dtype=float)).ravel().tolist())
        return m.get(), pat
    ref = build('early')
    try:
        got = build(when)
    except Exception as ex:
        return Outcome.fail('dro_late_rvar:raises', 'a random array declared after the first adapt() call: %r (declared before it the model '
                            'solves to %.9g)' % (ex, ref[0]), labels)
    if abs(got[0] - ref[0]) > 1e-6 * (1 + abs(ref[0])):
        return Outcome.fail('dro_late_rvar:value', 'optimum %.9g with the random array declared after the first adapt() call, %.9g before it' % (got[0], ref[0]), labels)
    if got[1] != ref[1]:
        return Outcome.fail('dro_late_rvar:pattern', 'dependence pattern (NaN coefficients) %r vs %r' % (got[1], ref[1]), labels)
    return Outcome.ok(True, labels)


class C13(Prop):
    id = 'C13'
    rule = ('(mask_ro) ro models with LDRs on random dependency masks: y.get(z) must be NaN exactly off the declared mask and the '
            'optimum must equal the cutting-plane reference computed with exactly the declared dependencies. (part) dro models whose '
            'event partition is built by a random sequence of adapt() calls (int/str labels), optionally with affine adaptation on a '
            'mask: returned Series must be constant within each declared event, coefficient NaN pattern must equal the mask, optimum '
            'must equal the inf-sup reference with one decision copy per event. (mix) two scalar decisions with independently drawn '
            'partitions combined in one constraint and one expectation, scenario data chosen so that the optimum depends on the '
            'partitions: optimum must equal a direct LP with one copy per event of each decision (i.e. the expression behaves as '
            'adaptive to the common refinement); all 5x5 (quick) / 15x15 (thorough) pairs of partitions of 3 / 4 scenarios are '
            'also enumerated exhaustively. (illegal) re-declared dependency or scenario, unknown scenario, affine adaptation of '
            'integer/binary decisions, ro adapt() after the rule was used, dro adapt() after a formulation: must raise (for dro: or '
            'reproduce the from-scratch result). Non-trivial = partition neither trivial nor discrete / mask neither empty nor '
            'full / illegal case; distinct by IR hash.')
    assumptions = ['references as in C02/C04 (inconclusive when they do not converge)', 'tolerance 1e-6 relative (LP), 2e-4 with cone solvers']

    def examples(self, tier):
        return 2400 if tier == 'quick' else 60000

    def strategy(self, tier):
        return c13_case()

    def check(self, case):
        mode = case['mode']
        labels = ['mode:' + mode]
        if mode == 'illegal':
            labels.append('illegal:' + case['which'])
            try:
                msg = illegal(case)
            except Exception as ex:
                return Outcome.ok(True, labels + ['raised:' + type(ex).__name__])
            if msg is None:
                return Outcome.ok(True, labels + ['equals_from_scratch'])
            return Outcome.fail('illegal_accepted:' + case['which'], 'illegal declaration %s was %s' % (case['which'], msg), labels)
        if mode == 'mix':
            return self.check_mix(case, labels)
        if mode == 'dro_late_rvar':
            return dro_late_rvar(case, labels)
        if mode == 'static_rule':
            # a decision rule that never adapts is an ordinary decision: declared before / after / without random variables
            from rsome import ro
            n, cc, lo = case['n'], np.array(case['c']), np.array(case['lo'])
            labels.append('rvar:' + case['when_rvar'])
            try:
                m = ro.Model()
                z = m.rvar(2) if case['when_rvar'] == 'before' else None
                y = m.ldr(n)
                if case['when_rvar'] == 'after_ldr':
                    z = m.rvar(2)
                e = {'mul': lambda: y * cc, 'add': lambda: y + cc, 'matmul': lambda: np.diag(cc) @ y, 'slice': lambda: y[:n] * 1.0}[case['use']]()
                if case['when_rvar'] == 'after_use':
                    z = m.rvar(2)
                m.min(cc @ y)
                m.st(y >= lo, e >= lo - 5.0)
                if z is not None:
                    m.st((y[0] + z.sum() >= lo[0] - 2).forall(abs(z) <= 1))
                with quiet():
                    m.solve(display=False)
                val = m.get()
            except Exception as ex:
                return Outcome.fail('static_rule:raises:' + type(ex).__name__, 'a model with a never-adapted ldr() (random variables declared: %s) raises %r' % (case['when_rvar'], ex), labels)
            want = float(cc @ lo) if z is None else float(cc @ lo + cc[0] * 0.0)
            if z is not None:
                # y[0] >= lo[0] - 2 + 2 = lo[0] at the worst case z = (-1, -1): not binding beyond y >= lo
                pass
            if abs(val - want) > 1e-6 * (1 + abs(want)):
                return Outcome.fail('static_rule:value', 'optimum %.9g, expected %.9g' % (val, want), labels)
            return Outcome.ok(True, labels)
        if mode == 'mask_ro':
            c = case['ro']
            m, h = romodel.build(c)
            solver, kind = romodel.pick_solver(c)
            val = romodel.solve(m, solver)
            mask = np.array(c['ymask']).reshape(c['ny'], c['nz'] + c['nu']).astype(bool) if c['ny'] else np.zeros((0, 0), dtype=bool)
            cls = 'none' if c['ny'] == 0 else 'empty' if not mask.any() else 'full' if mask.all() else 'partial'
            labels.append('mask:' + cls)
            if val is None:
                return Outcome.skip('not_optimal', labels)
            if c['ny'] and mask.any():
                x, y0, Y, nanpat = romodel.read_solution(c, h)
                if not np.array_equal(nanpat, ~mask):
                    return Outcome.fail('nan_pattern:ro', 'y.get(z) is NaN at %s but the declared mask is %s' % (nanpat.astype(int).tolist(), mask.astype(int).tolist()), labels)
            ref, info = romodel.reference_optimum(c)
            if ref is None:
                return Outcome.inconclusive('reference', labels)
            tol = (1e-6 if kind == 'lp' else 2e-4) * (1 + abs(ref))
            if abs(val - ref) > tol:
                return Outcome.fail('dependence:ro:' + cls, 'optimum %.9g but the reference with exactly the declared dependencies gives %.9g' % (val, ref), labels)
            return Outcome.ok(cls == 'partial', labels)
        c = case['dro']
        idx, ev = D.event_index(c)
        S = c['S']
        m, h = D.build(c)
        val = D.solve(m, None)
        cls = 'none' if not c['ny'] else 'trivial' if len(ev) == 1 else 'discrete' if len(ev) == S else 'partial'
        labels += ['partition:' + cls, 'S:%d' % S]
        if val is None:
            return Outcome.skip('not_optimal', labels)
        x, y0, Y, raw = D.read_solution(c, h)
        if c['ny']:
            ny1 = c['ny'] - c.get('ny2', 0)
            for grp_no, (lo_, hi_) in enumerate(((0, ny1), (ny1, c['ny']))):
                if hi_ == lo_:
                    continue
                _, ev_g = D.event_index(c, grp_no)
                for g in ev_g:
                    for s in g[1:]:
                        if not np.allclose(y0[s, lo_:hi_], y0[g[0], lo_:hi_], atol=1e-9) or not np.allclose(Y[s, lo_:hi_], Y[g[0], lo_:hi_], atol=1e-9):
                            return Outcome.fail('event_constant', 'scenarios %d and %d are in one declared event but get different decisions %s vs %s' % (
                                g[0], s, y0[g[0], lo_:hi_].tolist(), y0[s, lo_:hi_].tolist()), labels)
            mask = np.array(c['ymask']).reshape(c['ny'], c['nz'] + c['nu']).astype(bool)
            if mask.any():
                import pandas as pd
                for tag, lo_, hi_ in (('a', 0, ny1), ('b', ny1, c['ny'])):
                    for off, n in ((0, c['nz']), (c['nz'], c['nu'])):
                        key = 'Y%s%d' % (tag, off)
                        if key not in raw or not n:
                            continue
                        g = raw[key]
                        for s in range(S):
                            gs = g[h['labels'][s]] if isinstance(g, pd.Series) else g
                            pat = np.isnan(np.array(gs, dtype=float).reshape(hi_ - lo_, n))
                            if not np.array_equal(pat, ~mask[lo_:hi_, off:off + n]):
                                return Outcome.fail('nan_pattern:dro', 'coefficients of scenario %d are NaN at %s, declared mask %s' % (
                                    s, pat.astype(int).tolist(), mask[lo_:hi_, off:off + n].astype(int).tolist()), labels)
                labels.append('affine_mask:' + ('full' if mask.all() else 'partial'))
            if c.get('ny2'):
                labels.append('two_adaptive_groups')
        ref, info = D.reference_optimum(c)
        if ref is None:
            return Outcome.inconclusive('reference', labels)
        if abs(val - ref) > 1e-6 * (1 + abs(ref)):
            return Outcome.fail('dependence:dro:' + cls, 'optimum %.9g but the reference with one decision copy per declared event gives %.9g' % (val, ref), labels)
        return Outcome.ok(cls == 'partial' or (c['ny'] and np.any(c['ymask']) and not np.all(c['ymask'])), labels)

    def check_mix(self, case, labels):
        ref, b1, b2 = mix_reference(case)
        S = case['S']
        k1 = 'trivial' if len(b1) == 1 else 'discrete' if len(b1) == S else 'partial'
        k2 = 'trivial' if len(b2) == 1 else 'discrete' if len(b2) == S else 'partial'
        labels += ['p1:' + k1, 'p2:' + k2, 'form:%d' % case['form']]
        m, y1, y2, lab = mix_build(case)
        with quiet():
            m.solve(display=False)
        sol = m.solution
        val = None if sol is None or sol.x is None or np.isnan(sol.objval) else m.get()
        if ref is None:
            if val is None:
                return Outcome.ok(False, labels + ['both_infeasible'])
            return Outcome.fail('mix:infeasible_solved', 'RSOME returns %.9g for a model whose per-event LP is infeasible' % val, labels)
        if val is None:
            return Outcome.fail('mix:no_solution', 'RSOME finds no solution; the per-event LP has optimum %.9g' % ref, labels)
        if abs(val - ref) > 1e-6 * (1 + abs(ref)):
            return Outcome.fail('mix:value', 'optimum %.9g but one-copy-per-event LP gives %.9g (partitions %s and %s)' % (val, ref, b1, b2), labels)
        import pandas as pd
        for yv, blocks in ((y1, b1), (y2, b2)):
            g = yv.get()
            if isinstance(g, pd.Series):
                if list(g.index) != lab:
                    return Outcome.fail('mix:labels', 'Series index %s is not the scenario labels %s' % (list(g.index), lab), labels)
                for blk in blocks:
                    vals = [float(g[lab[s]]) for s in blk]
                    if max(vals) - min(vals) > 1e-9:
                        return Outcome.fail('mix:event_constant', 'decision differs inside the declared event %s: %s' % (blk, vals), labels)
            elif len(blocks) > 1:
                return Outcome.fail('mix:not_series', 'event-wise decision returned %r instead of a per-scenario Series' % (g,), labels)
        return Outcome.ok(k1 == 'partial' or k2 == 'partial' or (k1 != k2), labels)

    def run_enumerations(self, tier, seed):
        """all pairs of partitions (as canonical adapt sequences) of 3 (quick) or 4 (thorough) scenarios"""
        S = 3 if tier == 'quick' else 4
        parts = list(partitions(S))
        failures, labels, nt, samples, herrs = [], {}, [], [], []
        count = 0
        for P1 in parts:
            for P2 in parts:
                for variant in range(2):
                    # the block containing scenario 0 stays implicit in variant 0; every block is declared in variant 1
                    def calls(P):
                        blocks = sorted(P, key=lambda b: b[0])
                        return [b for b in blocks if (variant == 1 or 0 not in b)][::-1 if variant else 1]
                    case = {'mode': 'mix', 'S': S, 'z': [float(v) for v in ([3, 1, 2, 4][:S])], 'p': [1.0 / S] * S,
                            'calls1': calls(P1), 'calls2': calls(P2), 'c1': 1.0, 'c2': 2.0, 'cap1': 2.0, 'labels': 'int',
                            'form': (count % 3)}
                    if variant == 1 and any(len(c) == S for c in (case['calls1'], case['calls2'])):
                        pass
                    out = self.check_mix(case, ['mode:mix', 'enumerated'])
                    count += 1
                    if out.status == 'fail':
                        failures.append({'bucket': 'enum:' + out.bucket, 'msg': out.msg, 'case': case, 'index': -1, 'shard': 0, 'count': 1})
                    elif out.nontrivial:
                        nt.append(case_hash(case))
                        if len(samples) < 2:
                            samples.append(case)
        for S_ in (1, 2, 3):
            for second in ('whole', 'entry', 'none'):
                case = {'mode': 'dro_late_rvar', 'S': S_, 'when': 'after_adapt', 'second': second}
                from vf.core import safe_check
                out = safe_check(self, case)
                count += 1
                if out.status == 'fail':
                    failures.append({'bucket': 'enum:' + out.bucket, 'msg': out.msg, 'case': case, 'index': -1, 'shard': 0, 'count': 1})
                elif out.status == 'harness_error':
                    herrs.append({'msg': out.msg, 'case': case})
                elif out.nontrivial:
                    nt.append(case_hash(case))
        labels['enumerated_partition_pairs'] = count
        return {'evaluations': count, 'labels': labels, 'failures': failures[:3], 'harness_errors': herrs, 'nt_hashes': nt,
                'samples': samples, 'coverage': {'exhaustive_partition_pairs': '%d scenarios: %d x %d partitions x 2 declaration orders' % (S, len(parts), len(parts))}}


PROP = C13()
