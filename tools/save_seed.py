"""usage: save_seed.py <ID> <mK> <detected_by comma list or 'none'> <what it needs to manifest>"""
import json, os, shutil, sys
pid, mk, det, needs = sys.argv[1], sys.argv[2], sys.argv[3], sys.argv[4]
src = '/tmp/mut/out_%s/%s' % (pid, mk)
dst = '/verif/seeded/%s-%s' % (pid, mk)
os.makedirs(dst, exist_ok=True)
for f in ('patch.diff', 'demo.py', 'notes.md'):
    shutil.copy(os.path.join(src, f), os.path.join(dst, f))
conf = open(os.path.join(src, 'confirm.txt')).read().strip() if os.path.exists(os.path.join(src, 'confirm.txt')) else 'not confirmed'
meta = {'breaks_property': pid, 'needs_to_manifest': needs,
        'confirmed_in_scratch_worktree': conf,
        'what_i_ran': ['tools/confirm_seed.sh %s %s  (demo on clean tree, demo on mutated tree, full pytest suite on mutated tree)' % (pid, mk),
                       'tools/seedtest.sh seeded/%s-%s/patch.diff <checks>  (quick checks against a scratch worktree with the patch applied)' % (pid, mk)],
        'detected_by_quick_checks': [] if det == 'none' else det.split(','),
        'origin': 'written by an independent sub-agent that saw only the property text and its own scratch worktree'}
json.dump(meta, open(os.path.join(dst, 'meta.json'), 'w'), indent=1)
print('saved', dst, conf)
