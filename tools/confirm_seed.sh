#!/bin/bash
# usage: tools/confirm_seed.sh <ID> <mK> [notests]  -- confirms a sub-agent's mutation in its scratch worktree /tmp/mut/<ID>
ID=$1; M=$2; W=/tmp/mut/$ID; O=/tmp/mut/out_$ID/$M
cd $W || exit 2
git checkout -q -- . ; git clean -fdq
export PYTHONPATH=$W
/venv/bin/python $O/demo.py > $O/confirm_clean.log 2>&1; RC0=$?
git apply $O/patch.diff || { echo "patch does not apply" > $O/confirm.txt; exit 2; }
/venv/bin/python $O/demo.py > $O/confirm_mut.log 2>&1; RC1=$?
T="skipped"
if [ "$3" != "notests" ]; then
  /venv/bin/python -m pytest -q -p no:cacheprovider --timeout=900 -q tests > $O/confirm_tests.log 2>&1; T="rc=$? $(tail -1 $O/confirm_tests.log)"
fi
git checkout -q -- . ; git clean -fdq
echo "demo_on_clean_rc=$RC0 demo_on_mutant_rc=$RC1 tests_on_mutant: $T" | tee $O/confirm.txt
