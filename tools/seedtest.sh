#!/bin/bash
# usage: tools/seedtest.sh <patch.diff> <ID> [<ID> ...]
# Runs the quick checks against a scratch worktree of /repo's HEAD with the patch applied (never touches /repo itself,
# evidence and replay files of these runs go to a scratch directory).
P="$(readlink -f "$1")"; shift
W=/tmp/seedrepo_$$; O=/tmp/seedout_$$
git -C /repo worktree add -q --detach $W HEAD || exit 2
cd $W
if ! git apply "$P" 2>/dev/null; then
  if ! patch -p1 --fuzz=3 -s < "$P"; then echo "patch does not apply"; cd /; git -C /repo worktree remove --force $W; exit 2; fi
fi
/venv/bin/python -c "import sys; sys.path.insert(0,'$W'); import rsome; assert rsome.__file__.startswith('$W')" || exit 2
cd /verif
mkdir -p $O
for id in "$@"; do
  out=$(VERIF_REPO=$W VERIF_OUT=$O VERIF_SEED=${VERIF_SEED:-1} timeout 2400 ./check $id quick 2>&1 | grep -v conda)
  echo "== $id: $(echo "$out" | grep -c '^VIOLATION') violation line(s)"
  echo "$out" | grep -A1 '^VIOLATION' | grep bucket | head -6
  echo "$out" | tail -1
done
git -C /repo worktree remove --force $W; rm -rf $O
