"""usage: python tools/find_hang.py <ID> <shard> [seed] -- replays one shard of a quick run, printing slow cases;
faulthandler dumps the stack and exits when a single case takes longer than 60 s"""
import faulthandler
import json
import sys
import time

from hypothesis import given, seed as hseed

from vf import core

pid = sys.argv[1].upper()
shard = int(sys.argv[2])
seed = int(sys.argv[3]) if len(sys.argv) > 3 else 1
prop = core.load_prop(pid)
n = max(1, prop.examples('quick') // 16)
cnt = [0]


@hseed(core.shard_seed(seed, shard))
@core._hyp_settings(n, False)
@given(prop.strategy('quick'))
def body(case):
    cnt[0] += 1
    with open('/tmp/hang_cur_%s_%d.json' % (pid, shard), 'w') as f:
        json.dump({'case': case}, f)
    faulthandler.cancel_dump_traceback_later()
    faulthandler.dump_traceback_later(60, exit=True)
    t = time.time()
    core.safe_check(prop, case)
    dt = time.time() - t
    if dt > 5:
        print('slow', shard, cnt[0], round(dt, 1), json.dumps(case)[:300], flush=True)


body()
faulthandler.cancel_dump_traceback_later()
print('done', shard, cnt[0])
